"""C02: soundness -- no proof of a false statement is accepted.

Explored prover strategies (all against the real verifier, with the proved row
evaluator deciding which statements are false):
  * the honest algorithm forced past its unsatisfied-circuit check on violating
    assignments: witness overridden, raw rows of every widget family with
    random wires, ONE component of ONE widget row violated in isolation,
    public input inconsistent with its witness;
  * rows all satisfied but a compiled copy constraint broken (key of A,
    assignment of B with the shared witness re-allocated);
  * field-wise splices of two valid proofs of the same circuit;
  * degenerate proofs.
"""
import json
from ..common import *
from .. import proofgate, protocol, composer, refver
from .c03 import DRAW, XSEC, G1_GEN

THEOREMS = ["C02_accept_bad_z_bound", "C02_rows_sat_outside_bad_challenges", "C02_opening_exact_agm_partial", "C02_row_evaluator_exact", "C02_permutation_argument_sound"]
SEL = ["q_m", "q_l", "q_r", "q_o", "q_f", "q_c", "q_arith", "q_range", "q_logic", "q_fixed", "q_var"]
COMP_NAMES = {7: ["range c-4d", "range b-4c", "range a-4b", "range d'-4a"],
              8: ["logic a quad", "logic b quad", "logic d quad", "logic product", "logic table"],
              9: ["fixed bit", "fixed xy_alpha", "fixed x", "fixed y"],
              10: ["var x1*y2", "var x3", "var y3"]}

def raw_line(sel11, wires, pi=False):
    s = list(sel11[:6]) + [0] + list(sel11[6:])
    return "raw " + " ".join(hx(x) for x in s) + (" 1 " if pi else " 0 ") + " ".join(wires)

def isolated_pairs(snap):
    """(row index, widget selector index) of rows of a real snapshot that use a non-arithmetic widget"""
    out = []
    for i, (sel, wires) in enumerate(snap.gates):
        for k in (7, 8, 9, 10):
            if sel[k]: out.append((i, k))
    return out

def run(ck):
    quick = ck.tier == "quick"
    proofgate.run(ck, "C02.v", THEOREMS)
    build_driver(); build_harness()
    rng = Rng(ck.seed, "C02")
    # ---- phase 0: real gadget layouts to cut widget rows from
    from .. import jubjub as J
    P_, Q_ = J.random_subgroup_point(rng), J.random_subgroup_point(rng)
    ex = lambda p: " ".join(hx(v) for v in J.ext(p))
    donors = [["w " + hx(rng.randrange(1 << 30)), "w " + hx(rng.randrange(1 << 30)), "rbits 32 $0", "land 6 $0 $1", "lxor 5 $0 $1",
               f"pt {ex(P_)}", f"pt {ex(Q_)}", "padd $4 $5 $6 $7", "padd $8 $9 $8 $9", "w " + hx(rng.randrange(J.RJ)), f"mulgen $12 {ex(J.GEN)}", "snap"]]
    rc, out, err = run_harness("\n".join(["prog d0"] + donors[0]) + "\n", "c02_donor")
    dsnap = Snapshot(split_programs(out)["d0"])
    pairs = isolated_pairs(dsnap)
    S = protocol.Script()
    S.cmd("pp", "pp", 1 << 10, "1:" + DRAW.hex())
    cases = []
    def add_case(tag, bodyA, bodyB, kind=None, expect=None):
        i = len(cases); a, b = f"A{i}", f"B{i}"
        S.circuit(a, bodyA); S.circuit(b, bodyB)
        c1 = S.cmd("compile", f"k{i}", "pp", "6d", a)
        c2 = S.cmd("prove", f"p{i}", f"k{i}", b, 9 + i, "V3", "force")
        c3 = S.cmd("verify", f"k{i}", f"p{i}", "=")
        c4 = S.cmd("snapshot", a); c5 = S.cmd("snapshot", b); c6 = S.cmd("verifierbytes", f"k{i}")
        cases.append(dict(tag=tag, a=a, b=b, compile=c1, prove=c2, verify=c3, sa=c4, sb=c5, vb=c6, i=i))
        ck.count((tag, tuple(bodyB)), kind=kind or tag)
    n_each = 5 if quick else 40
    for _ in range(n_each):
        body = protocol.gadget_circuit(rng)
        add_case("satisfied (control)", body, body)
        bad = list(body); bad.append(f"setw {6 + rng.randrange(3)} " + hx(rng.scalar()))
        add_case("forced prover: one witness overridden", body, bad)
    # raw rows of each widget family with random wires (every component violated)
    for k in (6, 7, 8, 9, 10):
        for rep in range(2 if quick else 8):
            sel = [0] * 11; sel[k] = rng.choice([1, R - 1, rng.scalar()])
            if k == 6: sel[0] = 1; sel[3] = R - 1
            if k == 8: sel[5] = sel[k]
            if k == 9: sel[1], sel[2], sel[5] = rng.scalar(), rng.scalar(), rng.scalar()
            ws = ["w " + hx(rng.scalar()) for _ in range(8)]
            good = ws + [raw_line([0] * 11, ["$0", "$1", "$2", "$3"]), raw_line([0] * 11, ["$4", "$5", "$6", "$7"])]
            bad = ws + [raw_line(sel, ["$0", "$1", "$2", "$3"]), raw_line([0] * 11, ["$4", "$5", "$6", "$7"])]
            add_case(f"forced prover: raw {SEL[k]} row with random wires", bad, bad)
    # ONE widget row cut out of a real gadget, each of its 8 values perturbed in isolation
    want_pairs = []
    for kk in (7, 8, 9, 10):
        ps = [p for p in pairs if p[1] == kk]
        cap = 4 if quick else 24
        want_pairs += ps if len(ps) <= cap else [ps[j] for j in sorted(set(rng.randrange(len(ps)) for _ in range(cap)))]
    for (i, k) in want_pairs:
        sel = dsnap.gates[i][0]
        cur = [dsnap.wits[w] for w in dsnap.gates[i][1]]
        nxt = [dsnap.wits[w] for w in dsnap.gates[i + 1][1]] if i + 1 < len(dsnap.gates) else [0, 0, 0, 0]
        vals = cur + nxt
        def circ(vs):
            return ["w " + hx(v) for v in vs] + [raw_line(sel, ["$0", "$1", "$2", "$3"]), raw_line([0] * 11, ["$4", "$5", "$6", "$7"])]
        good = circ(vals)
        add_case(f"isolated {SEL[k]} row (control)", good, good)
        for pos in range(8):
            for dv in ((1, R - 1) if not quick else (rng.choice([1, R - 1, 4, 1 << 64]),)):
                vs = list(vals); vs[pos] = (vs[pos] + dv) % R
                comps = row_components(sel, tuple(vs[:4]), tuple(vs[4:]), 0)
                bad = [COMP_NAMES[k][j - 1] for j in range(1, len(comps)) if comps[j]] if len(comps) > 1 else []
                kind = "isolated violation: " + ("+".join(bad) if bad else "none (wire unused by the widget)")
                add_case(f"forced prover: {SEL[k]} row, wire {'abcd'[pos % 4]}{chr(39) if pos >= 4 else ''} perturbed", good, circ(vs), kind=kind)
    # two non-quad digits of one range row whose delta values cancel (accepted only if two quad checks share a weight)
    from .c09 import cancelling_cases
    for cid, body, over, pr in cancelling_cases(rng):
        add_case(f"forced prover: range row with cancelling non-quad digits (quad checks {pr[0]},{pr[1]})", body, body + [f"setw {i} {hx(v)}" for i, v in sorted(over.items())], kind="cancelling quads")
    # public input inconsistent with its witness
    for _ in range(2 if quick else 10):
        v = rng.scalar()
        A = ["w 3", "pub " + hx(v), "gmul 1 0 0 0 0 3 - $0 $0 0 0"]
        B = ["w 3", "pub " + hx(v), "setw 7 " + hx((v + 1 + rng.small()) % R), "gmul 1 0 0 0 0 3 - $0 $0 0 0"]
        add_case("forced prover: public-input witness differs from the public input", A, B)
    # copy constraint broken, rows satisfied
    for _ in range(n_each):
        x, y = rng.small(), rng.small()
        if x == y: y += 1
        A = ["w " + hx(x), "w " + hx(y), "gmul 1 0 0 0 0 0 - $0 $1 0 0", "gadd 0 1 1 0 0 0 - $2 $0 0 0"]
        B = ["w " + hx(x), "w " + hx(y), "gmul 1 0 0 0 0 0 - $0 $1 0 0", "gadd 0 1 1 0 0 0 - $2 $1 0 0"]
        add_case("forced prover: copy constraint broken, every row satisfied", A, B)
    # copy constraints one end of which sits on the closing (selector-less) row of a gadget: the logic result consumed
    # downstream, and the witness a range check is bound to; the instance wires a different witness there
    for _ in range(max(2, n_each // 2)):
        x, y, f = rng.randrange(1 << 4), rng.randrange(1 << 4), 200 + rng.small(50)
        for op in ("lxor", "land"):
            A = ["w " + hx(x), "w " + hx(y), "w " + hx(f), f"{op} 2 $0 $1", "gadd 0 1 1 0 0 0 - $3 $0 0 0"]
            B = A[:4] + ["gadd 0 1 1 0 0 0 - $2 $0 0 0"]
            add_case(f"forced prover: result of {op} replaced downstream by another witness (copy constraint on the gadget's closing row)", A, B)
        big = 1000 + rng.small(1000)
        A = ["w " + hx(big), "w " + hx(rng.randrange(256)), "rbits 8 $0", "gadd 0 1 1 0 0 0 - $0 $0 0 0"]
        B = A[:2] + ["rbits 8 $1", "gadd 0 1 1 0 0 0 - $0 $0 0 0"]
        add_case("forced prover: range check bound to another witness than the one used downstream", A, B)
    res = protocol.run(S, "c02_a", timeout=3000)
    ck.sample({"compiled": S.circuits["A1"], "instance_tail": S.circuits["B1"][-2:]})
    # ---- oracle: proved evaluator on (A's selectors, B's wires) + copy classes
    from .c05 import copy_ok
    jobs, meta = [], {}
    for c in cases:
        if protocol.status(res[c["compile"]]) != "OK":
            raise BuildError(f"C02 setup: compile failed for {c['tag']}: {res[c['compile']][:100]}")
        sa, sb = protocol.parse_snapshot(res[c["sa"]]), protocol.parse_snapshot(res[c["sb"]])
        if len(sa.gates) != len(sb.gates):
            meta[c["i"]] = None; continue
        syn = Snapshot([]); syn.gates = [(sa.gates[j][0], sb.gates[j][1]) for j in range(len(sa.gates))]
        syn.pis = dict(sb.pis); syn.wits = list(sb.wits)
        jobs.append((str(c["i"]), syn, None)); meta[c["i"]] = copy_ok(sa, sb)[0]
    sat = composer.model_sat(jobs, "c02_sat")
    forced = []
    n_false = n_rej = 0
    for c in cases:
        i = c["i"]
        if meta[i] is None: continue
        rows_ok = sat.get(str(i), "?") is None
        true_stmt = rows_ok and meta[i]
        rp, rv = res[c["prove"]], res[c["verify"]]
        ctx = {"failing_input_found": True, "strategy": c["tag"], "compiled_circuit": S.circuits[c["a"]], "prover_assignment": S.circuits[c["b"]],
               "prove": "Prover::prove with the verif force switch (degree check skipped, quotient truncated)"}
        ck.traces += 1
        if "PANIC" in rp:
            ck.violation(f"forced prover panicked ({c['tag']}): {rp[:120]}", ctx, key="panic"); continue
        if not rp.startswith("OK"):
            if true_stmt: ck.violation(f"forced prover failed on a satisfied instance ({c['tag']}): {rp[:100]}", ctx, key="prove")
            continue
        t = rp.split(); pb = bytes.fromhex(t[1]); pis = [int(x, 16) for x in t[2][3:].split(",")] if t[2][3:] else []
        forced.append((c, pb, pis, true_stmt))
        accepted = rv.startswith("OK")
        if not true_stmt:
            n_false += 1; n_rej += (not accepted)
        if accepted and not true_stmt:
            ctx.update(proof_hex=pb.hex(), pis=[hx(p) for p in pis], verifier_hex=res[c["vb"]].split()[1][:200] + "...")
            ck.violation(f"verifier ACCEPTED a proof of a false statement ({c['tag']}): the assignment violates " + ("a row of the compiled circuit" if not rows_ok else "a compiled copy constraint"), ctx, key="accepted:" + c["tag"].split(",")[0][:40])
        if not accepted and true_stmt:
            ck.violation(f"verifier rejected the forced prover's proof of a TRUE statement ({c['tag']}): {rv[:80]}", ctx, key="rejected-true")
    ck.notes.append(f"forced proofs of false statements: {n_false}, rejected: {n_rej}")
    # ---- reference verifier on the forced proofs (same verdict expected)
    sub = forced if not quick else forced[::3]
    ref = refver.run([(f"f{c['i']}", "V3", XSEC, res[c["vb"]].split()[1], pb.hex(), pis) for c, pb, pis, ts in sub], "c02_ref")
    for c, pb, pis, ts in sub:
        rvd = ref.get(f"f{c['i']}", ("?", []))[0]
        real = res[c["verify"]].startswith("OK")
        if (rvd == "ACCEPT") != real:
            ck.violation(f"real and reference verifier disagree on a forced proof ({c['tag']}): real={'OK' if real else 'ERR'} reference={rvd}",
                         {"failing_input_found": True, "proof_hex": pb.hex(), "pis": [hx(p) for p in pis], "compiled_circuit": S.circuits[c["a"]], "prover_assignment": S.circuits[c["b"]]}, key="ref-disagree")
    # ---- phase 2: splices and degenerate proofs
    S2 = protocol.Script(); S2.cmd("pp", "pp", 1 << 10, "1:" + DRAW.hex())
    circs = {"s0": ["w 5", "w 7", "gmul 1 0 0 0 0 0 - $0 $1 0 0", "pub 23", "rbits 8 $0", "lxor 2 $0 $1"],
             "s0b": ["w 6", "w 3", "gmul 1 0 0 0 0 0 - $0 $1 0 0", "pub 23", "rbits 8 $0", "lxor 2 $0 $1"],   # same circuit & PI, other witness
             "s1": ["pub " + hx(rng.scalar())] + protocol.filler(9, rng)}
    for nme, body in circs.items(): S2.circuit(nme, body)
    S2.cmd("compile", "ks0", "pp", "6d", "s0"); S2.cmd("compile", "ks1", "pp", "6d", "s1")
    pr = {("s0", 1): S2.cmd("prove", "a1", "ks0", "s0", 101), ("s0", 2): S2.cmd("prove", "a2", "ks0", "s0", 102),
          ("s0b", 1): S2.cmd("prove", "a3", "ks0", "s0b", 103), ("s1", 1): S2.cmd("prove", "b1", "ks1", "s1", 104), ("s1", 2): S2.cmd("prove", "b2", "ks1", "s1", 105)}
    r2 = protocol.run(S2, "c02_b")
    P = {}
    for kx, cid in pr.items():
        if not r2[cid].startswith("OK"): raise BuildError("C02 setup: honest prove failed: " + r2[cid][:100])
        t = r2[cid].split(); P[kx] = (bytes.fromhex(t[1]), [int(x, 16) for x in t[2][3:].split(",")] if t[2][3:] else [])
    def fields(pb): return [pb[48 * f:48 * f + 48] for f in range(11)] + [pb[528 + 32 * f:560 + 32 * f] for f in range(15)]
    forged = []   # (key, proof, pis, desc, must_reject)
    for (ka, kb, key) in ((("s0", 1), ("s0", 2), "ks0"), (("s0", 1), ("s0b", 1), "ks0"), (("s1", 1), ("s1", 2), "ks1")):
        fa, fb = fields(P[ka][0]), fields(P[kb][0]); pis = P[ka][1]
        forged.append((key, P[ka][0], pis, "control: valid proof", False)); forged.append((key, P[kb][0], pis, "control: valid proof", False))
        masks = [[j < 11 for j in range(26)], [j >= 11 for j in range(26)], [j % 2 == 0 for j in range(26)], [j in (9, 10) for j in range(26)],
                 [j not in (9, 10) for j in range(26)], [j in (0, 1, 2, 3, 11, 12, 13, 14) for j in range(26)], [j in (4,) for j in range(26)], [5 <= j <= 8 for j in range(26)]]
        for _ in range(6 if quick else 60): masks.append([rng.randrange(2) == 1 for _ in range(26)])
        for f in range(26): masks.append([j == f for j in range(26)])
        for m in masks:
            sp = b"".join(fb[j] if m[j] else fa[j] for j in range(26))
            if sp in (P[ka][0], P[kb][0]): continue
            forged.append((key, sp, pis, "splice of two valid proofs: fields " + ",".join(str(j) for j in range(26) if m[j]) + " from the second", True))
    ident = bytes([0xC0]) + bytes(47)
    base, bpis = P[("s0", 1)]
    # the SAME verifier object that has just accepted (proof, pi) is asked about (proof, pi') - verifier state kept
    # across calls must not widen acceptance
    forged.append(("ks0", base, bpis, "control: valid proof", False))
    for pis_ in ([(bpis[0] + 1) % R] + bpis[1:], bpis[:-1], bpis + [0], [], [0] * len(bpis)):
        forged.append(("ks0", base, pis_, "previously accepted proof offered again with other public inputs: " + ",".join(hx(x)[:8] for x in pis_), True))
    forged.append(("ks0", base, bpis, "control: valid proof", False))
    for pis in (bpis, [0] * len(bpis), [], [(bpis[0] + 1) % R]):
        forged.append(("ks0", ident * 11 + bytes(480), pis, "degenerate: all-identity commitments, all-zero evaluations", True))
        forged.append(("ks0", ident * 11 + base[528:], pis, "degenerate: all-identity commitments, honest evaluations", True))
        forged.append(("ks0", base[:528] + bytes(480), pis, "degenerate: honest commitments, all-zero evaluations", True))
        forged.append(("ks0", G1_GEN * 11 + (1).to_bytes(32, "little") * 15, pis, "degenerate: all-generator commitments, all-one evaluations", True))
        forged.append(("ks0", base[:432] + ident * 2 + base[528:], pis, "degenerate: identity opening witnesses", True))
    # adversary that replays the transcript: aim at the FALSE public input p+1 and shift the two opening
    # witnesses by multiples of the generator, W_z += c g, W_zw -= (c/u) g with c = +-dPI(z)/(z(1-w)); needs the
    # batching challenge u to be known before W_zw is fixed, which the protocol's transcript order rules out
    forged += correlated_shift_forgeries(ck, S2, circs, P, r2)
    S3 = protocol.Script(); S3.lines = list(S2.lines); S3.n = S2.n
    ids = []
    for j, (key, pb, pis, desc, mr) in enumerate(forged):
        pa = ",".join(hx(p) for p in pis) or "-"
        S3.cmd("proofbytes", f"g{j}", pb.hex(), pa)
        ids.append(S3.cmd("verify", key, f"g{j}", pa)); ck.count((key, pb, tuple(pis)), kind=desc.split(":")[0])
    # ---- the V2 profile (selector-bound equation, legacy transcript): stored genuine V2 proofs (corpus/c03_v2.json,
    # produced once by the unchanged tree with the legacy-proving feature) are the controls; each of their 15
    # evaluations moved alone must be rejected under V2 -- V2 and V3 bind every evaluation the proof carries
    corpus = json.load(open(os.path.join(VERIF, "corpus", "c03_v2.json")))
    v2ids = []
    for j, c in enumerate(corpus[:2 if quick else len(corpus)]):
        S3.circuit(f"cv{j}", c["body"]); S3.cmd("compile", f"kv{j}", "pp", c["label_hex"], f"cv{j}")
        pb = bytes.fromhex(c["proof_hex"]); pa = ",".join(c["pis"]) or "-"
        variants = [(pb, "control: stored genuine V2 proof", False)]
        for f in range(15):
            e = (int.from_bytes(pb[528 + 32 * f:560 + 32 * f], "little") + 1 + rng.small(8)) % R
            variants.append((pb[:528 + 32 * f] + e.to_bytes(32, "little") + pb[560 + 32 * f:], f"V2 profile: evaluation field {f} of a genuine V2 proof moved", True))
        for k, (vb_, desc, mr) in enumerate(variants):
            S3.cmd("proofbytes", f"v2_{j}_{k}", vb_.hex(), pa)
            v2ids.append((S3.cmd("verify", f"kv{j}", f"v2_{j}_{k}", pa, "V2"), vb_, c, desc, mr)); ck.count(("v2", j, k), kind=desc.split(":")[0])
    r3 = protocol.run(S3, "c02_c", timeout=3000)
    for cid, vb_, c, desc, mr in v2ids:
        r = r3.get(cid, "MISSING"); ck.traces += 1
        ctx = {"failing_input_found": True, "strategy": desc, "proof_hex": vb_.hex(), "pis": c["pis"], "circuit": c["body"], "label_hex": c["label_hex"], "version": "V2"}
        if "PANIC" in r: ck.violation(f"verifier panicked under V2 ({desc}): {r[:100]}", ctx, key="panic-v2")
        elif mr and r.startswith("OK"): ck.violation(f"verifier ACCEPTED under V2: {desc}", ctx, key="accepted-v2")
        elif not mr and not r.startswith("OK"):
            ctx["failing_input_found"] = False
            ctx["correspondence"] = "verify_with_version(V2) vs the modelled V2/V3 equation (RefVerifier.verify_v23_gen): a genuine V2 proof is no longer accepted, so V2 does not run the selector-bound equation the soundness theorems are about"
            ctx["theorems_no_longer_tied"] = THEOREMS
            ck.violation(f"V2 profile no longer decides the modelled equation: stored genuine V2 proof rejected ({r[:60]})", ctx, key="v2-profile")
    for (key, pb, pis, desc, mr), cid in zip(forged, ids):
        r = r3.get(cid, "MISSING"); ck.traces += 1
        ctx = {"failing_input_found": True, "strategy": desc, "proof_hex": pb.hex(), "pis": [hx(p) for p in pis], "circuit": circs["s0" if key == "ks0" else "s1"]}
        if "PANIC" in r: ck.violation(f"verifier panicked on a forged proof ({desc}): {r[:100]}", ctx, key="panic2")
        elif mr and r.startswith("OK"): ck.violation(f"verifier ACCEPTED a forged proof ({desc})", ctx, key="accepted:" + desc.split(":")[0])
        elif not mr and not r.startswith("OK"): raise BuildError("C02 control proof rejected: " + r[:100])
    return ck.finish(level="proof",
        rule="prover strategies: Prover::prove forced past its CircuitUnsatisfied check (cfg-guarded switch) on assignments with one witness overridden, raw rows of every widget family with random wires, single widget rows cut from real range / logic / curve-addition / fixed-base gadgets with each of their 8 wire values perturbed in isolation (classified by which component of the widget they violate), public-input witness mismatch, copy constraint broken with all rows satisfied; field-wise splices of two valid proofs (same circuit, different randomness / different witness); degenerate proofs under several public-input vectors; the V2 profile on stored genuine V2 proofs with each evaluation moved alone. Oracle: the extracted, proved row evaluator on (compiled selectors, prover's wires) plus the copy-class check decides whether the statement is false; false => the real verifier must reject, true => accept; forced proofs are also handed to the Gallina reference verifier",
        assumptions=["KZG binding / knowledge soundness (AGM) and Fiat-Shamir in the random-oracle model: not mechanised", "the explored strategies are those named in the property; an adversary with the SRS trapdoor is out of scope"],
        checker_cmd=proofgate.CHECKER_CMD, trusted_base=proofgate.TRUSTED)

def correlated_shift_forgeries(ck, S2, circs, P, r2):
    """adversary that runs the prover on the FALSE public input p+1 (forced past the unsatisfied check), learns the
    discrepancy point D of the verifier's equation, and shifts W_z += k D, W_zw -= (k/u) D with k = -1/(z(1-w)).
    It needs the batching challenge u before W_zw is fixed; the protocol's transcript order rules that out."""
    from .c03 import g1lin, W32
    out = []
    body = circs["s1"]
    p_true = int(body[0].split()[1], 16)
    S = protocol.Script(); S.lines = list(S2.lines); S.n = S2.n
    S.circuit("s1f", ["pub " + hx((p_true + 1) % R), "setw 6 " + hx(p_true)] + body[1:])
    pf = S.cmd("prove", "pf", "ks1", "s1f", 55, "V3", "force")
    vb_id = S.cmd("verifierbytes", "ks1"); sn = S.cmd("snapshot", "s1"); v0 = S.cmd("verify", "ks1", "pf", "=")
    r = protocol.run(S, "c02_cs0")
    if not r[pf].startswith("OK"): return out
    t = r[pf].split(); base = bytes.fromhex(t[1]); false_pis = [int(x, 16) for x in t[2][3:].split(",")]
    pa = ",".join(hx(p) for p in false_pis)
    m = re.search(r"ch=([0-9a-f,]*)", r[v0])
    if r[v0].startswith("OK") or not m or not m.group(1): return out
    z = int(m.group(1).split(",")[7], 16)
    vbhex = r[vb_id].split()[1]; vb = bytes.fromhex(vbhex)
    snap = protocol.parse_snapshot(r[sn])
    n = npo2(len(snap.gates)); lg = n.bit_length() - 1
    w = pow(W32, 1 << (32 - lg), R)
    rc, o, e = run_driver(f"VD d V3 {hx(XSEC)} {vbhex} {base.hex()} {pa}\n", "c02_vd")
    D = bytes.fromhex(o.split()[2]) if rc == 0 and len(o.split()) > 2 else None
    if D is None: return out
    k = (-pow(z * (1 - w) % R, R - 2, R)) % R
    wz2 = g1lin(base[432:480], k, D, "c02_cs_a")
    if wz2 is None: return out
    p1 = base[:432] + wz2 + base[480:]
    S1 = protocol.Script(); S1.lines = list(S2.lines); S1.n = S2.n
    S1.cmd("proofbytes", "cs1", p1.hex(), pa); v1 = S1.cmd("verify", "ks1", "cs1", pa)
    r1 = protocol.run(S1, "c02_cs1")
    m1 = re.search(r"ch=([0-9a-f,]*)", r1[v1])
    if not m1 or not m1.group(1): return out
    u = int(m1.group(1).split(",")[10], 16)
    if u == 0: return out
    wzw2 = g1lin(base[480:528], (-k * pow(u, R - 2, R)) % R, D, "c02_cs_b")
    if wzw2 is None: return out
    out.append(("ks1", base[:432] + wz2 + wzw2 + base[528:], false_pis, "correlated shift of both opening witnesses by multiples of the verifier's own discrepancy point (false public input)", True))
    return out

def replay(ck, path):
    print(json.dumps(json.load(open(path))["replay"], indent=1)[:3000]); return 0
