"""C07: shape independence and total generation."""
import json
from ..common import *
from .. import proofgate, composer
from .. import jubjub as J

THEOREMS = ["C07_append_witness", "C07_append_gate", "C07_append_evaluated_output", "C07_gate_add", "C07_select",
            "C07_range", "C07_decomposition", "C07_truncate", "C07_logic", "C07_sequence",
            "C07_point_add", "C07_point_neg", "C07_point_select_identity", "C07_point_torsion", "C07_point_mul", "C07_canonical_scalar"]

def value_classes(rng, k):
    RJ_ = RJ
    base = [0, 1, R - 1, RJ_, RJ_ - 1, 1 << k if k < 255 else 1 << 254, ((1 << k) - 1) % R if k else 0, rng.scalar(), 2, 3]
    return base

def point_ops_available():
    return os.path.exists(os.path.join(VERIF, "harness", "src", "points.rs"))

def pole_pair(rng, sign):
    """two coordinate pairs on a pole of the addition law: d*x1*y2*y1*x2 = sign (1+t = 0 or 1-t = 0)"""
    x1, y1, x2 = (rng.scalar() or 1), (rng.scalar() or 1), (rng.scalar() or 1)
    y2 = sign * J.inv(D_ED * x1 % R * y1 % R * x2 % R) % R
    return (x1, y1), (x2, y2)

def doubling_pole(rng, sign):
    """(x, y) with d*x^2*y^2 = sign, if it exists for a random x"""
    for _ in range(64):
        x = rng.scalar() or 1
        y = J.sqrt(sign * J.inv(D_ED * x % R * x % R) % R)
        if y: return (x, y)
    return None

def point_classes(rng):
    P = J.random_subgroup_point(rng); T = J.torsion_points()
    cls = [("identity", J.ID, J.ID), ("P,-P", P, J.neg(P)), ("P,P", P, P), ("subgroup", P, J.random_subgroup_point(rng)),
           ("torsion", T[1], T[3]), ("mixed order", J.add(P, T[5]), T[2]), ("off-curve (0,0)", (0, 0), (0, 0)),
           ("off-curve random", (rng.scalar(), rng.scalar()), (rng.scalar(), rng.scalar())),
           ("pole 1+t=0",) + pole_pair(rng, -1), ("pole 1-t=0",) + pole_pair(rng, 1)]
    for sg in (1, -1):
        dp = doubling_pole(rng, sg)
        if dp: cls.append((f"doubling pole {'1-t' if sg == 1 else '1+t'}=0", dp, dp))
    return cls

def point_section(ck, rng, quick):
    e = lambda p, z=1: " ".join(hx(v) for v in J.ext(p, z))
    raw = lambda p: f"w {hx(p[0])}\nw {hx(p[1])}"
    tmpls = ["padd $0 $1 $2 $3", "psub $0 $1 $2 $3", "pneg $0 $1", "pselid $4 $0 $1", "pselpt $4 $0 $1 $2 $3", "tors $0 $1",
             "torsq $0 $1 {q}", "aeqp $0 $1 $2 $3", "pmul $4 $0 $1"]
    lines, progs, groups = [], {}, {}
    for ti, t in enumerate(tmpls):
        for ci, (tag, A, B) in enumerate(point_classes(rng)):
            for b in ([0, 2] if ti in (3, 4, 8) else [1]):
                name = f"p{ti}_{ci}_{b}"
                L = raw(A).split("\n") + raw(B).split("\n") + ["w " + hx(b if ti != 8 else [0, 1, (1 << 252) - 1][b] if b < 3 else b), t.replace("{q}", f"{hx(B[0])} {hx(B[1])}"), "snap"]
                progs[name] = L; groups.setdefault(ti, []).append(name)
                lines.append("prog " + name); lines.extend(L)
                ck.count(("pt", t, tag, b), kind="point component: " + t.split()[0])
    # several calls on two point witnesses in one composer: the shape must be the same whether the two points hold
    # EQUAL values (as in the all-identity default instance) or distinct ones
    Pq, Qq = J.random_subgroup_point(rng), J.random_subgroup_point(rng)
    for si, seq_ in enumerate([["tors $0 $1", "tors $2 $3"], ["tors $0 $1", "tors $2 $3", "tors $0 $1"], ["padd $0 $1 $2 $3", "padd $2 $3 $0 $1", "tors $0 $1", "tors $2 $3"],
                               ["pneg $0 $1", "pneg $2 $3", "psub $0 $1 $2 $3", "psub $2 $3 $0 $1"], ["w 1", "pselid $4 $0 $1", "pselid $4 $2 $3"]]):
        for vi, (A_, B_) in enumerate([(J.ID, J.ID), (Pq, Pq), (Pq, Qq), (J.ID, Pq), (Pq, J.neg(Pq))]):
            name = f"pseq{si}_{vi}"
            L = raw(A_).split("\n") + raw(B_).split("\n") + seq_ + ["snap"]
            progs[name] = L; groups.setdefault(f"pseq{si}", []).append(name)
            lines.append("prog " + name); lines.extend(L)
            ck.count(("pseq", si, vi), kind="point sequences: equal vs distinct values")
    # entry points taking an extended representation: Z = 0, inconsistent T1*T2, torsion, off-curve
    P = J.random_subgroup_point(rng); T = J.torsion_points()
    exts = [("Z=0", f"{hx(P[0])} {hx(P[1])} 0 {hx(P[0])} {hx(P[1])}"), ("Z=0 all zero", "0 0 0 0 0"), ("honest Z=1", e(P)), ("honest Z=7", e(P, 7)),
            ("inconsistent T1*T2", f"{hx(P[0])} {hx(P[1])} 1 {hx(P[0])} {hx((P[1] + 1) % R)}"), ("torsion", e(T[1])), ("off-curve", e((3, 5))), ("identity", e(J.ID))]
    for ei, (tag, ex) in enumerate(exts):
        for op in ("pt", "ppt", "cpt", "mulgen $0", "aeqpp 0 1"):
            name = f"e{ei}_{op.split()[0]}"
            L = ["w " + hx(rng.randrange(J.RJ)), f"{op} {ex}", "snap"]
            progs[name] = L; lines.append("prog " + name); lines.extend(L)
            ck.count(("ext", op, tag), kind="extended representation: " + tag)
    for k in (0, 1, J.RJ - 1, J.RJ, R - 1, (1 << 252) - 1, rng.randrange(J.RJ)):
        name = f"g_{k % 9973}"
        L = ["w " + hx(k), f"mulgen $0 {e(J.GEN)}", "snap"]
        progs[name] = L; groups.setdefault("mulgen", []).append(name) if k < J.RJ else None
        lines.append("prog " + name); lines.extend(L)
        ck.count(("mulgen", k), kind="mul_generator scalar classes")
    return lines, progs, groups

def run(ck):
    quick = ck.tier == "quick"
    proofgate.run(ck, "C07.v", THEOREMS)
    build_driver(); build_harness(); build_harness("checked")
    rng = Rng(ck.seed, "C07")
    # (op template, widths) ; $0,$1,$2 are three input witnesses
    comps = []
    for w in range(0, 257): comps.append((f"rbits {w} $0", "rbits", w))
    for p in range(0, 131, 1 if not quick else 3): comps.append((f"rpairs {p} $0", "rpairs", p))
    for n in range(0, 255): comps.append((f"trunc {n} $0", "trunc", n))
    for n in range(1, 257): comps.append((f"decomp {n} $0", "decomp", n))
    for p in range(0, 128): comps.append((f"land {p} $0 $1", "land", p)); comps.append((f"lxor {p} $0 $1", "lxor", p))
    for t in ["bool $0", "sel $0 $1 $2", "sel1 $0 $1", "sel0 $0 $1", "aeq $0 $1",
              "gadd 1 2 3 0 5 6 - $0 $1 0 $2", "gmul 1 0 0 0 5 6 7 $0 $1 0 $2",
              "evo 1 2 3 0 5 6 - $0 $1 0 $2", "evo 1 2 3 9 5 6 - $0 $1 0 $2", "gate 1 2 3 4 5 6 7 $0 $1 $2 $0"]:
        comps.append((t, t.split()[0], 0))
    lines, progs, groups = [], {}, {}
    nvals = 3 if quick else 8
    for ci, (tmpl, kind, k) in enumerate(comps):
        vals = value_classes(rng, k)
        picks = [vals[0:3], [vals[(ci + 1) % len(vals)], vals[(ci + 4) % len(vals)], vals[(ci + 7) % len(vals)]]]
        while len(picks) < nvals:
            picks.append([rng.choice(vals), rng.boundary(), rng.scalar()])
        for j, (a, b, c) in enumerate(picks):
            name = f"c{ci}_{j}"
            L = ["w " + hx(a), "w " + hx(b), "w " + hx(c), tmpl, "snap"]
            progs[name] = L; groups.setdefault(ci, []).append(name)
            lines.append("prog " + name); lines.extend(L)
            ck.count((tmpl, a, b, c), kind=kind)
    # append_evaluated_output with an output selector other than 0, 1, -1: inputs whose polynomial evaluates to
    # exactly zero (all-zero default instance, cancelling values, value cancelled by the public input) next to
    # inputs where it does not - wiring and witness count must not depend on it
    for qi, qo in enumerate([9, 2, R - 2, RJ, rng.scalar() or 3]):
        for ti, (tmpl, zero_vals) in enumerate([(f"evo 0 1 1 {hx(qo)} 0 0 - $0 $1 0 $2", [(0, 0, 0), (7, R - 7, 3), (R - 1, 1, 0)]),
                                               (f"evo 1 0 0 {hx(qo)} 1 0 - $0 $1 0 $2", [(0, 5, 0), (3, 4, R - 12), (0, 0, 0)]),
                                               (f"evo 0 1 0 {hx(qo)} 0 0 {hx(R - 5)} $0 $1 0 $2", [(5, 1, 2), (5, 0, 0)]),
                                               (f"evo 0 0 0 {hx(qo)} 0 {hx(4)} {hx(R - 4)} $0 $1 0 $2", [(1, 2, 3), (0, 0, 0)])]):
            ci = f"evoz{qi}_{ti}"
            for j, (a, b, c) in enumerate(zero_vals + [(rng.scalar(), rng.scalar(), rng.scalar()), (1, 1, 1)]):
                name = f"{ci}_{j}"
                L = ["w " + hx(a), "w " + hx(b), "w " + hx(c), tmpl, "snap"]
                progs[name] = L; groups.setdefault(ci, []).append(name)
                lines.append("prog " + name); lines.extend(L)
                ck.count((tmpl, a, b, c), kind="evo, zero-valued polynomial")
    pl, pp, pg = point_section(ck, rng, quick)
    lines += pl; progs.update(pp)
    for k_, v_ in pg.items(): groups["pt%s" % k_] = v_
    script = "\n".join(lines) + "\n"
    rc, out_c, err_c = run_harness(script, "c07", "composer", checked=True)
    if rc != 0: raise BuildError("checked harness failed: " + err_c[-1500:])
    impl = split_programs(out_c)
    rc, out_m, err_m = run_driver(script, "c07")
    if rc != 0: raise BuildError("driver failed: " + err_m[-1500:])
    model = split_programs(out_m)
    ck.sample({"program": progs["c10_1"]}); ck.sample({"program": progs[f"c{len(comps)-3}_0"]})
    # (1) no panic for any value, debug assertions and overflow checks on
    for name, L in progs.items():
        pl = [l for l in impl.get(name, []) if l.startswith("PANIC")]
        if pl:
            ck.violation(f"component panicked during circuit construction: {L[-2][:60]} with values {[x[:40] for x in L[:-2]]}: {pl[0]}",
                         {"failing_input_found": True, "program": L}, key="panic:" + L[-2].split()[0])
            break
    # (2) the layout is the same for every value class, and is the model's
    def shape_of(lines_):
        s = Snapshot(lines_)
        return ([g for g in s.gates], sorted(s.pis.keys()), len(s.wits), s.results)
    bad_shape = None
    for ci, names in groups.items():
        ref = shape_of(impl[names[0]])
        for n in names[1:]:
            if shape_of(impl[n]) != ref:
                bad_shape = (names[0], n); break
        if bad_shape: break
    if bad_shape:
        a, b = bad_shape
        ck.violation(f"shape depends on witness values: {progs[a][-2][:60]} emits different gates / public-input rows / witness count for inputs {[x[:40] for x in progs[a][:-2]]} and {[x[:40] for x in progs[b][:-2]]}",
                     {"failing_input_found": True, "program": progs[b], "program_reference": progs[a]}, key="shape:" + progs[a][-2].split()[0])
    bad = composer.compare_programs(ck, progs, impl, model, "C07")
    if bad and not ck.violations:
        name, d = bad[0]
        ck.violation(f"correspondence C07 (L3) broke on {len(bad)} of {len(progs)} programs; first {name}: {progs[name][-2][:60]}: {d}",
                     {"failing_input_found": False, "correspondence": "L3 snapshot vs Composer/Components.v (shape theorems are about this model)", "program": progs[name], "diff": d,
                      "theorems_no_longer_tied": THEOREMS})
    return ck.finish(level="proof",
        rule="every modelled public component (incl. the curve-point components and entry points) x every const-generic width it accepts x value classes {0, 1, -1, r_jubjub, r_jubjub-1, 2^k, 2^k-1, 2, 3, random}; harness built with debug assertions and overflow checks, each call under catch_unwind; layouts compared across value classes (impl vs impl) and with the model",
        assumptions=["the Gallina model is total by construction: absence of panics is established by the run-time check, not by a theorem",
                     "curve-point components: rows proved value-independent per block (C12_add_emits, C13_torsion_emits, C14_canonical_emits); panic-freedom and cross-value layout equality checked here on identity / inverse pairs / torsion / off-curve / both poles of the addition law / Z=0 representations"],
        checker_cmd=proofgate.CHECKER_CMD, trusted_base=proofgate.TRUSTED, extra={"exhaustive_over_widths": True})

def replay(ck, path):
    d = json.load(open(path))
    prog = d["replay"].get("program")
    build_driver(); build_harness("checked")
    rc, out, err = run_harness("prog replay\n" + "\n".join(prog) + "\n", "c07_replay", "composer", checked=True)
    print(out[:3000])
    return 0
