"""C03: the verifier decides exactly the protocol's equation and transcript."""
import json
from ..common import *
from .. import proofgate, protocol, refver, mutate

THEOREMS = ['C03_fused_term_is_lagrange', 'C03_all_widgets_in_equation', 'C03_frame_injective']
DRAW = bytes((i * 37 + 11) % 256 for i in range(64))
XSEC = int.from_bytes(DRAW, "little") % R
G1_GEN = bytes.fromhex("97f1d3a73197d7942695638c4fa9ac0fc3688c4f9774b905a14e3a3f171bac586c55e83ff97a1aeffb3af00adb22c6bb")

def circuits(rng, quick):
    cs = [["w 5", "w 7", "gmul 1 0 0 0 0 0 - $0 $1 0 0", "pub 23", "rbits 8 $0", "lxor 2 $0 $1", "pub 0"],
          ["w 9", "w 4", "gadd 0 1 1 0 0 0 - $0 $1 0 0", "pub d", "aeq $2 $3"],
          ["pub " + hx(rng.scalar())] + protocol.filler(3, rng)]
    if not quick:
        for _ in range(6): cs.append(protocol.gadget_circuit(rng))
    return cs

def run(ck):
    quick = ck.tier == "quick"
    if THEOREMS: proofgate.run(ck, "C03.v", THEOREMS)
    build_driver(); build_harness()
    rng = Rng(ck.seed, "C03")
    # ---- phase 1: honest material
    S = protocol.Script()
    S.cmd("pp", "pp", 1 << 10, "1:" + DRAW.hex())
    cs = circuits(rng, quick)
    ids = []
    for i, body in enumerate(cs):
        S.circuit(f"c{i}", body)
        # circuits 0 and 1: 40-byte labels differing only in their last byte (beyond any fixed-size fingerprint);
        # the others: one-byte labels
        lab = (bytes((0x41 + (j % 26)) for j in range(39)) + bytes([0x30 + i])).hex() if i < 2 else "%02x" % (0x61 + i)
        S.cmd("compile", f"k{i}", "pp", lab, f"c{i}")
        ids.append((S.cmd("prove", f"p{i}", f"k{i}", f"c{i}", 30 + i), S.cmd("prove", f"q{i}", f"k{i}", f"c{i}", 60 + i), S.cmd("verifierbytes", f"k{i}")))
    corpus = json.load(open(os.path.join(VERIF, "corpus", "c03_v2.json")))
    corp_ids = []
    for j, c in enumerate(corpus):
        S.circuit(f"cv{j}", c["body"])
        S.cmd("compile", f"kv{j}", "pp", c["label_hex"], f"cv{j}")
        corp_ids.append(S.cmd("verifierbytes", f"kv{j}"))
    res = protocol.run(S, "c03_a")
    mat = []
    for i, (p, q, vb) in enumerate(ids):
        if not res[p].startswith("OK"): raise BuildError("honest prove failed in C03 setup: " + res[p][:100])
        t = res[p].split(); t2 = res[q].split()
        pis = [int(x, 16) for x in t[2][3:].split(",")] if t[2][3:] else []
        mat.append({"proof": bytes.fromhex(t[1]), "proof2": bytes.fromhex(t2[1]), "pis": pis, "vbytes": res[vb].split()[1]})
    for j, c in enumerate(corpus):
        cs.append(c["body"])
        mat.append({"proof": bytes.fromhex(c["proof_hex"]), "proof2": bytes.fromhex(c["proof_hex"]), "pis": [int(x, 16) for x in c["pis"]],
                    "vbytes": res[corp_ids[j]].split()[1], "corpus": True, "kname": f"kv{j}"})
    # ---- phase 2: triples
    triples = []   # (id, key index, version, proof bytes, pis, description)
    def add(k, ver, pb, pis, desc):
        triples.append((f"t{len(triples)}", k, ver, pb, pis, desc)); ck.count((k, ver, pb, tuple(pis)), kind=desc.split(":")[0])
    for i, m in enumerate(mat):
        if m.get("corpus"):
            add(i, "V2", m["proof"], m["pis"], "stored genuine V2 proof (corpus/c03_v2.json, produced by the unchanged tree)")
            add(i, "V3", m["proof"], m["pis"], "stored V2 proof under V3")
            add(i, "V2", m["proof"], [(m["pis"][0] + 1) % R] + m["pis"][1:], "stored V2 proof, public input changed")
            continue
        add(i, "V3", m["proof"], m["pis"], "honest")
        add(i, "V2", m["proof"], m["pis"], "honest proof under V2")
        for j, m2 in enumerate(mat):
            if j != i and not m2.get("corpus"): add(j, "V3", m["proof"], m2["pis"], "proof under the verifier of another circuit")
        if m["pis"]:
            add(i, "V3", m["proof"], [(m["pis"][0] + 1) % R] + m["pis"][1:], "public input changed")
            add(i, "V3", m["proof"], m["pis"][:-1], "public input vector truncated")
            add(i, "V3", m["proof"], list(reversed(m["pis"])), "public inputs reversed")
        # surplus public inputs after the genuine ones (also for circuits without any)
        add(i, "V3", m["proof"], m["pis"] + [0], "public input vector extended by a zero")
        add(i, "V3", m["proof"], m["pis"] + [rng.scalar()], "public input vector extended by a value")
        add(i, "V2", m["proof"], m["pis"] + [rng.scalar(), 0], "public input vector extended (V2)")
    base = mat[0]
    pb = base["proof"]
    nflips = 700 if quick else 8064
    positions = list(range(8064)) if not quick else sorted(set([rng.randrange(528 * 8) for _ in range(150)] + [528 * 8 + rng.randrange(480 * 8) for _ in range(nflips - 150)]))
    for bit in positions:
        b = bytearray(pb); b[bit // 8] ^= 1 << (bit % 8)
        add(0, "V3", bytes(b), base["pis"], "bit flip: " + ("commitment" if bit < 528 * 8 else "evaluation"))
    # every field replaced by another valid element
    for f in range(11):
        for nm, enc in (("other proof's", base["proof2"][48 * f:48 * f + 48]), ("neighbour field", pb[48 * ((f + 1) % 11):48 * ((f + 1) % 11) + 48]),
                        ("identity", bytes([0xC0]) + bytes(47)), ("generator", G1_GEN)):
            b = bytearray(pb); b[48 * f:48 * f + 48] = enc; add(0, "V3", bytes(b), base["pis"], f"commitment replaced: field {f} := {nm}")
    for f in range(15):
        for nm, enc in (("other proof's", base["proof2"][528 + 32 * f:560 + 32 * f]), ("neighbour", pb[528 + 32 * ((f + 1) % 15):560 + 32 * ((f + 1) % 15)]),
                        ("zero", bytes(32)), ("one", (1).to_bytes(32, "little"))):
            b = bytearray(pb); b[528 + 32 * f:560 + 32 * f] = enc; add(0, "V3", bytes(b), base["pis"], f"evaluation replaced: field {f} := {nm}")
    add(0, "V3", (bytes([0xC0]) + bytes(47)) * 11 + bytes(480), base["pis"], "all-identity / all-zero proof")
    # every commitment shifted by a point of the cofactor part of E(Fp) (on the curve, outside G1): the pairing does not
    # see the shift, only the decoder's subgroup check does
    from .. import mutate as MU
    T_ = MU.g1_torsion_point(rng)
    for f in range(11):
        P_ = MU.g1_decompress(pb[48 * f:48 * f + 48])
        if P_ is None: continue
        enc = MU.g1_compress(MU.g1_add(P_, T_))
        b = bytearray(pb); b[48 * f:48 * f + 48] = enc; add(0, "V3", bytes(b), base["pis"], f"commitment {f} shifted by a cofactor point (outside G1)")
    # ---- real verifier
    S2 = protocol.Script(); S2.lines = list(S.lines); S2.n = S.n
    cmds = {}
    for tid, k, ver, b, pis, desc in triples:
        S2.cmd("proofbytes", tid, b.hex(), ",".join(hx(p) for p in pis) or "-")
        cmds[tid] = S2.cmd("verify", mat[k].get("kname", f"k{k}"), tid, ",".join(hx(p) for p in pis) or "-", ver)
    res2 = protocol.run(S2, "c03_b", timeout=3000)
    # ---- reference verifier (extracted Gallina)
    ref = refver.run([(tid, ver, XSEC, mat[k]["vbytes"], b.hex(), pis) for tid, k, ver, b, pis, desc in triples], "c03_ref")
    ck.sample({"triple": "honest proof, circuit 0", "proof_hex_prefix": pb.hex()[:64]}); ck.sample({"triple": triples[40][5]})
    n_acc = 0; dis = []; chdiff = []
    for tid, k, ver, b, pis, desc in triples:
        r = res2.get(cmds[tid], "MISSING")
        ck.traces += 1
        if "PANIC" in r and "no entry" not in r:
            ck.violation(f"verifier panicked on: {desc}: {r[:120]}", {"failing_input_found": True, "proof_hex": b.hex(), "pis": [hx(p) for p in pis], "version": ver, "circuit": cs[k]}, key="panic"); continue
        real_ok = r.startswith("OK")
        rv, rch = ref.get(tid, ("?", []))
        if desc.startswith("stored genuine V2 proof") and not real_ok:
            ck.violation(f"a genuine V2 proof produced by the unchanged code is no longer accepted under PlonkVersion::V2: {r[:60]} (reference verifier: {rv})",
                         {"failing_input_found": True, "proof_hex": b.hex(), "pis": [hx(p) for p in pis], "version": ver, "circuit": cs[k], "label_hex": "7632", "corpus": "corpus/c03_v2.json"}, key="stored-v2")
        n_acc += real_ok
        if real_ok != (rv == "ACCEPT"):
            dis.append((tid, desc, r[:60], rv, b, pis, ver, k))
        m = re.search(r"ch=([0-9a-f,]*)", r)
        real_ch = m.group(1).split(",") if m and m.group(1) else []
        if real_ch and rch and real_ch != rch:
            names = ["beta", "gamma", "alpha", "range sep", "logic sep", "fixed sep", "var sep", "z", "v", "v_w", "u"]
            first = next((names[i] for i in range(min(len(real_ch), len(rch))) if real_ch[i] != rch[i]), "?")
            chdiff.append((tid, desc, first, b, pis, ver, k, real_ch))
    ck.notes.append(f"accepted by the real verifier: {n_acc} of {len(triples)}")
    if dis:
        tid, desc, r, rv, b, pis, ver, k = dis[0]
        ck.violation(f"real verifier and reference verifier disagree on {len(dis)} triples; first: {desc}: real={r} reference={rv}",
                     {"failing_input_found": True, "proof_hex": b.hex(), "pis": [hx(p) for p in pis], "version": ver, "verifier_hex": mat[k]["vbytes"][:200] + "...", "circuit": cs[k], "srs_secret": hx(XSEC)},
                     key="disagree:" + desc.split(":")[0])
    if chdiff and not dis:
        tid, desc, first, b, pis, ver, k, real_ch = chdiff[0]
        found = forge_from_transcript_gap(ck, S, first, b, pis, k, real_ch, mat)
        ck.violation(f"transcript differs from the protocol's: challenge '{first}' derived by the real verifier is not the one the specification derives ({len(chdiff)} triples; first: {desc})" + (": forged opening pair accepted" if found else ""),
                     {"failing_input_found": bool(found), "correspondence": "transcript tie (challenges of Proof::verify vs Protocol/RefVerifier.v)", "challenge": first, "proof_hex": (found or b).hex(), "pis": [hx(p) for p in pis], "circuit": cs[k]},
                     key="transcript:" + first)
    return ck.finish(level="proof",
        rule="(verifier, proof, public inputs, version) triples: honest proofs of all circuits, stored genuine V2 proofs (corpus) under V2 / V3 / changed PI, honest V3 proofs under V2, under verifiers of other circuits, with changed/truncated/reversed/extended public inputs; single-bit flips of the 1008 proof bytes (quick: 700 sampled, thorough: all 8064); every commitment shifted by a cofactor point (on the curve, outside G1); every commitment and evaluation replaced by another valid element (other proof's, neighbour, identity/generator, zero/one); degenerate proof. Real Verifier::verify_with_version vs the extracted Gallina reference verifier (own Keccak/STROBE/Merlin, own BLS12-381 G1, exponent-level pairing check with the scripted SRS secret); derived challenges compared one by one",
        assumptions=["Keccak-f modelled as a function (no collision/randomness claim)", "pairing bilinear and non-degenerate: e(A, x h) e(B, h) = 1 <=> x A + B = O", "Protocol/G1.v is an unverified executable reference: a bug there shows as a disagreement on the unchanged tree",
                     "V1 (legacy) equation is not modelled"],
        checker_cmd=proofgate.CHECKER_CMD, trusted_base=proofgate.TRUSTED)

W32 = 0x16a2a19edfe81f20d09b681922c813b4b63683508c2280b93829971f439f0d2b

def g1lin(base, scalar, g, name):
    rc, out, err = run_driver(f"G1LIN x {base.hex()} {hx(scalar)} {g.hex()}\n", name)
    t = out.split()
    return bytes.fromhex(t[2]) if len(t) > 2 and t[2] != "NONE" else None

def forge_from_transcript_gap(ck, S, first, pb, pis, k, real_ch, mat):
    """search: if the batching challenge u does not depend on [W_zw] as the
    protocol prescribes, the correlated pair  W_z' = W_z + c (x - z w) g,
    W_zw' = W_zw - (c / u') (x - z) g  passes the real verifier (x: scripted
    SRS secret, u': the challenge the real verifier derives once W_z' is fixed)."""
    if first != "u": return None
    vb = bytes.fromhex(mat[k]["vbytes"])
    label_len, vk_len = int.from_bytes(vb[0:8], "big"), int.from_bytes(vb[8:16], "big")
    g = vb[48 + label_len + vk_len:48 + label_len + vk_len + 48]
    n = int.from_bytes(vb[48 + label_len:48 + label_len + 8], "little")
    lg = (npo2(n)).bit_length() - 1
    omega = pow(W32, 1 << (32 - lg), R)
    pb = mat[k]["proof"]; pis = mat[k]["pis"]
    z = int(real_ch[7], 16)
    c = 0x1234567
    wz2 = g1lin(pb[432:480], c * (XSEC - z * omega) % R, g, "c03_forge1")
    if wz2 is None: return None
    p1 = pb[:432] + wz2 + pb[480:]
    S2 = protocol.Script(); S2.lines = list(S.lines); S2.n = S.n
    S2.cmd("proofbytes", "f1", p1.hex(), ",".join(hx(p) for p in pis) or "-")
    v1 = S2.cmd("verify", f"k{k}", "f1", ",".join(hx(p) for p in pis) or "-")
    r1 = protocol.run(S2, "c03_forge_a")[v1]
    m = re.search(r"ch=([0-9a-f,]*)", r1)
    if not m or not m.group(1): return None
    u2 = int(m.group(1).split(",")[10], 16); z2 = int(m.group(1).split(",")[7], 16)
    if z2 != z or u2 == 0: return None
    wzw2 = g1lin(pb[480:528], (-c * pow(u2, R - 2, R) * (XSEC - z)) % R, g, "c03_forge2")
    if wzw2 is None: return None
    p2 = pb[:432] + wz2 + wzw2 + pb[528:]
    S3 = protocol.Script(); S3.lines = list(S.lines); S3.n = S.n
    S3.cmd("proofbytes", "f2", p2.hex(), ",".join(hx(p) for p in pis) or "-")
    v2 = S3.cmd("verify", f"k{k}", "f2", ",".join(hx(p) for p in pis) or "-")
    r2 = protocol.run(S3, "c03_forge_b")[v2]
    return p2 if r2.startswith("OK") else None

def replay(ck, path):
    print(json.dumps(json.load(open(path))["replay"], indent=1)[:2500]); return 0
