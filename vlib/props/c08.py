"""C08: arithmetic / equality / boolean / selection components."""
import json, os
from ..common import *
from .. import proofgate, composer

THEOREMS = ["C08_evaluator_decides_sat", "C08_arith_rows_in_system", "C08_arith_block_iff", "C08_general_gate",
            "C08_evaluated_output_some", "C08_evaluated_output_none", "C08_output_unique", "C08_gate_add",
            "C08_gate_add_iff", "C08_gate_add_complete", "C08_assert_equal", "C08_assert_equal_constant",
            "C08_append_constant", "C08_append_public", "C08_boolean", "C08_select_zero", "C08_select_one", "C08_select"]

COEFFS = lambda rng: rng.choice([0, 1, R - 1, 2, rng.scalar(), rng.small(), 0, 1])

def gen_program(rng, nops):
    """random program over the C08 components; operands are ZERO/ONE, fresh
    witnesses or earlier results (shared wirings arise naturally)"""
    L = []
    nres = 0
    def operand():
        if nres and rng.randrange(3): return "$%d" % rng.randrange(nres)
        return str(rng.choice([0, 1, 0, 1, 2, 3, 4, 5]))
    nw = rng.randrange(2, 5)
    for _ in range(nw):
        L.append("w " + hx(rng.boundary())); nres += 1
    kinds = []
    for _ in range(nops):
        k = rng.choice(["gate", "evo", "evo0", "gadd", "gmul", "aeq", "aeqc", "aeqcp", "const", "pub", "bool", "sel", "sel1", "sel0", "w"])
        kinds.append(k)
        co = [hx(COEFFS(rng)) for _ in range(6)]
        pi = hx(rng.choice([0, rng.scalar(), 1])) if rng.randrange(3) == 0 else "-"
        ws = [operand() for _ in range(4)]
        if k == "gate":
            L.append("gate " + " ".join(co) + f" {pi} " + " ".join(ws))
        elif k in ("evo", "evo0"):
            if k == "evo0": co[3] = hx(0)
            elif rng.randrange(2): co[3] = hx(rng.choice([1, R - 1, rng.scalar() or 1]))
            L.append("evo " + " ".join(co) + f" {pi} " + " ".join(ws))
            if int(co[3], 16) != 0: nres += 1
        elif k in ("gadd", "gmul"):
            L.append(f"{k} " + " ".join(co) + f" {pi} " + " ".join(ws)); nres += 1
        elif k == "aeq": L.append(f"aeq {ws[0]} {ws[1]}")
        elif k == "aeqc": L.append(f"aeqc {ws[0]} {hx(COEFFS(rng))} -")
        elif k == "aeqcp": L.append(f"aeqc {ws[0]} {hx(COEFFS(rng))} {hx(rng.boundary())}")
        elif k == "const": L.append("const " + hx(rng.boundary())); nres += 1
        elif k == "pub": L.append("pub " + hx(rng.boundary())); nres += 1
        elif k == "bool": L.append(f"bool {ws[0]}")
        elif k == "sel": L.append(f"sel {ws[0]} {ws[1]} {ws[2]}"); nres += 1
        elif k == "sel1": L.append(f"sel1 {ws[0]} {ws[1]}"); nres += 1
        elif k == "sel0": L.append(f"sel0 {ws[0]} {ws[1]}"); nres += 1
        elif k == "w": L.append("w " + hx(rng.boundary())); nres += 1
    L.append("snap")
    return L, kinds

def gen_single(rng, kind):
    """one component on fresh inputs (used by the exactness probe so that the
    honest assignment satisfies the layout)"""
    L = []
    vals = [rng.boundary() for _ in range(4)]
    bit = rng.choice([0, 1])
    L.append("w " + hx(bit))
    for v in vals: L.append("w " + hx(v))
    co = [hx(COEFFS(rng)) for _ in range(6)]
    pi = hx(rng.scalar()) if rng.randrange(2) else "-"
    if kind == "gadd": L.append("gadd " + " ".join(co) + f" {pi} $1 $2 0 $3")
    elif kind == "gmul": L.append("gmul " + " ".join(co) + f" {pi} $1 $1 0 $3")
    elif kind == "evo":
        co[3] = hx(rng.choice([1, R - 1, rng.scalar() or 1, 2, 9]))
        if rng.randrange(3) == 0:
            # the input polynomial evaluates to exactly zero: q_c (or the public input) cancels the rest
            a_, b_, d_ = vals[0], vals[1], vals[2]
            rest = (int(co[0], 16) * a_ * b_ + int(co[1], 16) * a_ + int(co[2], 16) * b_ + int(co[4], 16) * d_) % R
            if pi != "-" and rng.randrange(2): pi = hx((-rest - int(co[5], 16)) % R)
            else: co[5] = hx((-rest - (int(pi, 16) if pi != "-" else 0)) % R)
        L.append("evo " + " ".join(co) + f" {pi} $1 $2 0 $3")
    elif kind == "sel": L.append("sel $0 $1 $2")
    elif kind == "sel1": L.append("sel1 $0 $1")
    elif kind == "sel0": L.append("sel0 $0 $1")
    elif kind == "const": L.append("const " + hx(vals[0]))
    elif kind == "pub": L.append("pub " + hx(vals[0]))
    L.append("snap")
    return L

def run(ck):
    quick = ck.tier == "quick"
    gate_ok = proofgate.run(ck, "C08.v", THEOREMS)
    build_driver()
    build_harness()
    rng = Rng(ck.seed, "C08")
    nprog = 150 if quick else 3000
    progs, lines = {}, []
    for i in range(nprog):
        L, kinds = gen_program(rng, rng.randrange(4, 22))
        name = f"p{i}"
        progs[name] = L
        lines.append(f"prog {name}"); lines += L
        for k in kinds: ck.count((k,), nontrivial=False, kind=k)
        ck.count(("prog", tuple(L)))
    singles = {}
    kinds_s = ["gadd", "gmul", "evo", "sel", "sel1", "sel0", "const", "pub"]
    for i in range(40 if quick else 400):
        k = kinds_s[i % len(kinds_s)]
        name = f"s{i}_{k}"
        L = gen_single(rng, k)
        singles[name] = L
        lines.append(f"prog {name}"); lines += L
        ck.count(("single", tuple(L)), kind="single:" + k)
    script = "\n".join(lines) + "\n"
    impl, model = composer.run_both(ck, script, "c08")
    ck.sample({"program": progs["p0"][:8]})
    ck.sample({"single": singles[next(iter(singles))]})
    allp = dict(progs); allp.update(singles)
    bad = composer.compare_programs(ck, allp, impl, model, "C08")
    # exactness probe on the REAL snapshots (runs always; it is also the search)
    found = None
    for name, L in singles.items():
        if name not in impl: continue
        snap = Snapshot(impl[name])
        if not snap.gates: continue
        outs = [int(r[0]) for r in snap.results[5:] if r and r[0].isdigit()]
        res = composer.free_wire_probe(ck, name, snap, first_new=11, outputs=outs, rng=rng)
        if res and not found:
            found = (name, res, L)
    if found:
        name, (kindf, what, detail), L = found
        # confirm with the extracted evaluator on the real layout
        snap = Snapshot(impl[name])
        conf = None
        if "assignment" in detail:
            conf = composer.model_sat([("x", snap, [int(x, 16) for x in detail["assignment"]])], "c08_confirm").get("x", "?")
        ck.violation(f"{kindf}: {what} (program {name}; extracted evaluator says first bad row = {conf})",
                     {"failing_input_found": True, "program": L, "detail": detail, "kind": kindf}, key=f"probe:{kindf}")
    if bad and not found:
        # search: on the programs that differ, does the REAL composer's own assignment satisfy the REAL rows?
        # (every C08 component is always satisfiable by the witness it returns - a 'no' is a concrete failing input)
        jobs = []
        for name, d in bad[:40]:
            if name in impl:
                sn = Snapshot(impl[name])
                if sn.gates and not any(l.startswith(("E ", "PANIC")) for l in impl[name]): jobs.append((name, sn, None))
        verdicts = composer.model_sat(jobs, "c08_selfsat") if jobs else {}
        unsat = [(n, verdicts[n]) for n, _, _ in jobs if verdicts.get(n, None) is not None]
        if unsat:
            name, row = min(unsat, key=lambda x: len(allp[x[0]]))
            d = dict(bad)[name]
            ck.violation(f"a C08 component returns a witness that does not satisfy its own rows: the real layout with the real composer's assignment fails at row {row} (program {name}; model vs implementation: {d})",
                         {"failing_input_found": True, "program": allp[name], "first_unsatisfied_row": row, "diff_to_model": d}, key="selfsat")
            return ck.finish(level="proof", rule="see evidence of an unviolated run", assumptions=[], checker_cmd=proofgate.CHECKER_CMD, trusted_base=proofgate.TRUSTED)
        name, d = bad[0]
        ck.violation(f"correspondence C08 (L3) broke: {len(bad)} of {len(allp)} programs differ; first: {name}: {d}; the emitted layout is not the one the theorems are about",
                     {"failing_input_found": False, "correspondence": "L3 composer snapshot vs Gallina model (theories/Composer)", "program": allp[name], "diff": d,
                      "theorems_no_longer_tied": THEOREMS})
    elif bad:
        ck.notes.append(f"correspondence also differs on {len(bad)} programs, first {bad[0]}")
    return ck.finish(level="proof",
        rule="random programs over all C08 components (coefficients from {0,1,-1,2,small,random}, operands ZERO/ONE/fresh/earlier results, with and without PI); distinct = distinct program texts; plus single-component programs probed on the real snapshot by witness perturbation with forward recomputation",
        assumptions=["PrimeR (prime r) hypothesis of the field lemmas", "witness handles passed to components index existing witnesses (same composer)"],
        checker_cmd=proofgate.CHECKER_CMD, trusted_base=proofgate.TRUSTED)

def replay(ck, path):
    d = json.load(open(path))
    prog = d["replay"].get("program")
    build_driver(); build_harness()
    script = "prog replay\n" + "\n".join(prog) + "\n"
    impl, model = composer.run_both(ck, script, "c08_replay")
    print("\n".join(impl.get("replay", [])[:60]))
    bad = composer.compare_programs(ck, {"replay": prog}, impl, model, "C08")
    print("diff:", bad)
    return 1 if bad else 0
