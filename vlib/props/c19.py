"""C19: FFT and polynomial kernels."""
import json
from ..common import *
from .. import proofgate

THEOREMS = ["C19_fft_rec_is_dft", "C19_domain_roots", "C19_fft_is_evaluation", "C19_coset_fft_is_evaluation",
            "C19_ifft_is_scaled_dft", "C19_parallel_butterfly_serial", "C19_poly_ops", "C19_ruffini", "C19_fft_rec_inverse", "C19_ifft_fft", "C19_fft_ifft",
            "C19_vanishing_iff_domain", "C19_vanishing_over_coset", "C19_lagrange_is_interpolant", "C19_barycentric_is_interpolant", "C19_batch_inversion_montgomery"]

W32 = 0x16a2a19edfe81f20d09b681922c813b4b63683508c2280b93829971f439f0d2b

def vec(rng, n, style):
    if style == "zeros": return [0] * n
    if style == "trailing": return [rng.scalar() for _ in range(max(1, n // 2))] + [0] * (n - max(1, n // 2))
    if style == "sparse": return [rng.scalar() if rng.randrange(4) == 0 else 0 for _ in range(n)]
    if style == "boundary": return [rng.boundary() for _ in range(n)]
    return [rng.scalar() for _ in range(n)]

def gen_cases(ck, rng, quick):
    L = []
    def add(line, kind):
        L.append(line); ck.count(("k", line), kind=kind)
    maxlog = 10 if quick else 14
    for lg in range(0, maxlog + 1):
        n = 1 << lg
        lens = sorted(set([max(0, n - 1), n, n + 1, max(0, n // 2), n + n // 2 + 1, 1, 2 * n, 2 * n + 1, 3 * n + 2, 5 * n + 1]))
        if quick and lg >= 8: lens = [n, n + 3, max(1, n - 5), 2 * n + 1, 3 * n + 7]
        for ln in lens:
            for style in (["random"] if lg >= 8 else ["random", "trailing", "zeros", "boundary"]):
                v = vec(rng, ln, style)
                for kind in range(4):
                    threads = rng.choice([1, 2, 3, 4, 5, 8, 16, 17])
                    add(f"K f{lg}_{ln}_{style}_{kind} fft {kind} {n} {threads} " + " ".join(hx(x) for x in v), f"fft kind {kind}")
    # both sides of the parallel thresholds: n = 2^12 under pools 1..17 (and 2^13, 2^11 thorough)
    for lg in ([12] if quick else [11, 12, 13]):
        n = 1 << lg
        v = vec(rng, n, "random")
        for t in (range(1, 18) if not quick else [1, 2, 3, 4, 5, 6, 7, 9, 12, 13, 16, 17]):
            for kind in ([0, 3] if quick else range(4)):
                add(f"K pool{lg}_{t}_{kind} fft {kind} {n} {t} " + " ".join(hx(x) for x in v), "fft pools at 2^%d" % lg)
    # the prover's shapes: blinded polynomials of n+2 / n+3 / n+6 coefficients (n >= 2^13, beyond every parallel threshold)
    # shifted onto the coset of a larger domain, under pools whose size does not divide the length
    for (lgn, lgd) in ([(13, 14)] if quick else [(13, 14), (13, 16), (14, 15)]):
        n = 1 << lgn
        for extra, t in ([(2, 3), (3, 16), (6, 5)] if quick else [(2, 3), (3, 16), (6, 5), (2, 7), (3, 2), (1, 13), (0, 6)]):
            v = vec(rng, n + extra, "random")
            add(f"K big{lgn}_{lgd}_{extra}_{t} fft 2 {1 << lgd} {t} " + " ".join(hx(x) for x in v), "coset fft of blinded-length vectors at 2^%d" % lgd)
    # polynomial arithmetic
    for i in range(60 if quick else 600):
        la, lb = rng.randrange(0, 40), rng.randrange(0, 40)
        a = vec(rng, la, rng.choice(["random", "trailing", "sparse", "zeros"]))
        b = vec(rng, lb, rng.choice(["random", "trailing", "sparse"]))
        s = rng.boundary()
        for op in range(8):
            add(f"K p{i}_{op} poly {op} {hx(s)} " + " ".join(hx(x) for x in a) + " | " + " ".join(hx(x) for x in b), "poly op %d" % op)
    for i in range(20 if quick else 200):
        v = [rng.choice([0, 0, rng.scalar(), 1, R - 1]) for _ in range(rng.randrange(0, 30))]
        add(f"K bi{i} binv " + " ".join(hx(x) for x in v), "batch_inversion")
    # closed forms, points inside and outside the domain
    for lg in range(0, 8 if quick else 11):
        n = 1 << lg
        w = pow(W32, 1 << (32 - lg), R)
        pts = [rng.scalar(), pow(w, rng.randrange(n), R), 1, 0, pow(w, max(0, n - 1), R), 7]
        for j, p in enumerate(pts):
            add(f"K la{lg}_{j} lagr {n} {hx(p)}", "lagrange")
            add(f"K va{lg}_{j} vanish {n} {hx(p)}", "vanishing")
            ev = vec(rng, n, rng.choice(["random", "sparse", "zeros"]))
            add(f"K ba{lg}_{j} bary {n} {hx(p)} " + " ".join(hx(x) for x in ev), "barycentric")
        # X^d - 1 over the coset for EVERY degree below the domain size (small domains) / a sample (large)
        degs = list(range(n)) if n <= 16 else sorted(set([0, 1, 2, 3, 5, n // 2, n // 2 + 1, n - 3, n - 1] + [rng.randrange(n) for _ in range(6)] + [1 << j for j in range(lg)]))
        for d in degs:
            add(f"K vc{lg}_{d} vcos {n} {d}", "vanishing over coset")
        # decoders' table checks: the true tables, one entry moved, wrong length, degree >= size
        if 1 <= lg <= 6:
            g = 7
            lin = [g * pow(w, i, R) % R for i in range(n)]
            for tag, tab in (("true", lin), ("moved", lin[:n // 2] + [(lin[n // 2] + 1) % R] + lin[n // 2 + 1:]), ("short", lin[:-1]), ("long", lin + [lin[0]]), ("rot", lin[1:] + lin[:1])):
                add(f"K ml{lg}_{tag} mlin {n} " + " ".join(hx(x) for x in tab), "matches_linear_poly_over_coset")
            for d in sorted(set([1, 2, 3, n // 2, n - 1, n, n + 1])):
                van = [(pow(g * pow(w, i, R) % R, d, R) - 1) % R for i in range(n)]
                for tag, tab in (("true", van), ("moved", van[:-1] + [(van[-1] + 1) % R]), ("short", van[:-1]), ("other", [(pow(g * pow(w, i, R) % R, d + 1, R) - 1) % R for i in range(n)])):
                    add(f"K mv{lg}_{d}_{tag} mvan {n} {d} " + " ".join(hx(x) for x in tab), "matches_vanishing_poly_over_coset")
        add(f"K el{lg} elems {n}", "domain elements")
        for ln in sorted(set([n, max(1, n - 1), n // 2 + 1])):
            ev = vec(rng, ln, rng.choice(["random", "trailing", "zeros"]))
            add(f"K ip{lg}_{ln} interp {n} " + " ".join(hx(x) for x in ev), "Evaluations::interpolate")
        add(f"K pw{lg} pows {hx(rng.choice([0, 1, R - 1, rng.scalar()]))} {rng.randrange(0, 40)}", "powers_of")
        add(f"K d{lg} dom {n}", "domain")
        if n > 1: add(f"K dm{lg} dom {n - 1}", "domain")
    return L

def run(ck):
    quick = ck.tier == "quick"
    if THEOREMS: proofgate.run(ck, "C19.v", THEOREMS)
    build_driver(); build_harness()
    rng = Rng(ck.seed, "C19")
    L = gen_cases(ck, rng, quick)
    text = "\n".join(L) + "\n"
    rc, oi, ei = run_harness(text, "c19", mode="kernels", timeout=3000)
    if rc != 0: raise BuildError("kernels harness failed: " + ei[-1500:])
    rc, om, em = run_driver(text, "c19", timeout=3000)
    if rc != 0: raise BuildError("kernels driver failed: " + em[-1500:])
    di = {l.split()[1]: l.split()[2:] for l in oi.splitlines() if l.startswith("K ")}
    dm = {l.split()[1]: l.split()[2:] for l in om.splitlines() if l.startswith("K ")}
    bad = []
    for line in L:
        nm = line.split()[1]
        ck.traces += 1
        if di.get(nm) != dm.get(nm):
            bad.append((nm, line))
    ck.sample({"case": L[5][:300]}); ck.sample({"case": L[-3][:300]})
    if bad:
        nm, line = bad[0]
        a, b = di.get(nm), dm.get(nm)
        first = next((i for i in range(min(len(a or []), len(b or []))) if a[i] != b[i]), None)
        ck.violation(f"kernel output differs from its definition on {len(bad)} cases; first: {nm}: {' '.join(line.split()[2:6])} ...: position {first}: impl={a[first] if first is not None else a} definition={b[first] if first is not None else b}",
                     {"failing_input_found": True, "case": line, "impl": a, "model": b}, key="kernel:" + line.split()[2])
    return ck.finish(level="proof",
        rule="all domain sizes 2^0..2^10 (thorough 2^14) x input lengths {n-1, n, n+1, n/2, 1.5n+1, 1} x {random, trailing zeros, all zero, boundary} x 4 transforms, random pool size from {1,2,3,4,5,8,16,17}; 2^12 under pools 1..17; coset FFT of vectors of 2^13+{2,3,6} coefficients on 2^14 under pools {3,16,5} (the prover's blinded shapes); polynomial add/sub/mul/scale/ruffini/eval on random/sparse/zero operands; batch inversion with zeros; Lagrange/vanishing/barycentric at points inside and outside the domain; X^d-1 over the coset for every degree d < size (sizes <= 16) and sampled degrees incl. non-powers of two (larger sizes)",
        assumptions=["PrimeR (prime r) for inverses", "rayon's par_chunks_mut/zip/for_each on disjoint chunks = sequential meaning (thread model is not mechanised; pools are exercised by the run)",
                     "ifft of a vector longer than the domain interpolates its first n entries (the model does the same)"],
        checker_cmd=proofgate.CHECKER_CMD, trusted_base=proofgate.TRUSTED)

def replay(ck, path):
    d = json.load(open(path))
    line = d["replay"]["case"]
    build_driver(); build_harness()
    rc, oi, ei = run_harness(line + "\n", "c19_replay", mode="kernels")
    rc, om, em = run_driver(line + "\n", "c19_replay")
    print("impl :", oi[:600]); print("model:", om[:600])
    return 0 if oi.split()[2:] == om.split()[2:] else 1
