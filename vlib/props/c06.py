"""C06: zero-knowledge masking."""
import json
from ..common import *
from .. import proofgate, protocol

THEOREMS = ['C06_blind_is_mask', 'C06_mask_vanishes_on_domain', 'C06_fresh_mask_changes_opening', 'C06_split_rerandomised']
W32 = 0x16a2a19edfe81f20d09b681922c813b4b63683508c2280b93829971f439f0d2b

def draws(rng, special=None):
    ds = [bytes(rng.randrange(256) for _ in range(64)) for _ in range(14)]
    if special == "zeros": ds = [bytes(64)] * 14
    if special == "ones": ds = [(1).to_bytes(64, "little")] * 14
    if special == "minus1": ds = [(R - 1).to_bytes(64, "little")] * 14
    return ds
def spec(seed, ds): return f"{seed}:" + ",".join(d.hex() for d in ds)
def scal(d): return int.from_bytes(d, "little") % R

def run(ck):
    quick = ck.tier == "quick"
    if THEOREMS: proofgate.run(ck, "C06.v", THEOREMS)
    build_driver(); build_harness()
    rng = Rng(ck.seed, "C06")
    S = protocol.Script()
    S.cmd("pp", "pp", (1 << 12) + 8, 3)
    circs = {"small": ["w 5", "w 7", "gmul 1 0 0 0 0 0 - $0 $1 0 0", "pub 23", "rbits 8 $0"],
             "n512": ["w 5", "w 7", "pub 9"] + ["gmul 1 0 0 0 0 3 - $0 $1 0 0"] * 300 + ["rbits 16 $0"]}
    if not quick: circs["n1024"] = ["w 3", "w 4"] + ["gmul 1 0 0 0 0 3 - $0 $1 0 0"] * 700
    # a domain of 4096 rows (beyond the fast-path thresholds of the polynomial code)
    circs["n4096"] = ["w 6", "w 11", "pub 2"] + ["gmul 1 0 0 0 0 3 - $0 $1 0 0"] * 2100
    runs = []
    for cn, body in circs.items():
        S.circuit(cn, body); S.cmd("compile", "k" + cn, "pp", "7a6b", cn)
        snap = S.cmd("snapshot", cn)
        base = draws(rng)
        variants = [("base", base), ("zeros", draws(rng, "zeros")), ("ones", draws(rng, "ones")), ("minus1", draws(rng, "minus1")), ("fresh", draws(rng))]
        if cn == "n4096": variants = [("base", base), ("fresh", draws(rng))]
        for j in range(14):
            v = list(base); v[j] = bytes(rng.randrange(256) for _ in range(64)); variants.append((f"draw{j}", v))
        for vn, ds in variants:
            p = S.cmd("prove", f"p{cn}{vn}", "k" + cn, cn, spec(1, ds))
            v = S.cmd("verify", "k" + cn, f"p{cn}{vn}", "=")
            runs.append((cn, vn, ds, p, v, snap))
            ck.count((cn, vn), kind="scripted RNG: " + vn.rstrip("0123456789"))
    res = protocol.run(S, "c06", timeout=3000)
    ck.sample({"circuit": "n512", "script": "14 scripted 64-byte draws; variants: base, all-zero, all-one, all-(r-1), fresh, and each single draw replaced"})
    M = []; checks = []
    proofs = {}
    for cn, vn, ds, p, v, snapid in runs:
        r = res[p]
        ctx = {"failing_input_found": True, "circuit": circs[cn][:6] + ["..."], "variant": vn, "draws": [d.hex() for d in ds]}
        if not r.startswith("OK"):
            if vn in ("zeros",) : ck.notes.append(f"degenerate blinders ({vn}) on {cn}: {r[:60]}"); continue
            ck.violation(f"prove failed under scripted randomness {vn} on {cn}: {r[:100]}", ctx, key="prove"); continue
        calls = r.split("rng=")[1].split(",")
        if calls != ["64"] * 14:
            ck.violation(f"the prover drew {len(calls)} values {calls[:16]} from the RNG instead of exactly 14 scalars", ctx, key="draw-count"); continue
        pb = bytes.fromhex(r.split()[1]); proofs[(cn, vn)] = pb
        if not res[v].startswith("OK"):
            ck.violation(f"proof under scripted randomness {vn} rejected: {res[v][:80]}", ctx, key="verify"); continue
        ch = re.search(r"ch=([0-9a-f,]*)", res[v]).group(1).split(",")
        z = int(ch[7], 16)
        snap = protocol.parse_snapshot(res[snapid])
        n = npo2(len(snap.gates)); k = n.bit_length() - 1
        omega = pow(W32, 1 << (32 - k), R)
        cols = [[snap.wits[g[1][w]] for g in snap.gates] for w in range(4)]
        b = [scal(d) for d in ds]
        ev = [int.from_bytes(pb[528 + 32 * i:560 + 32 * i], "little") for i in range(7)]
        if cn == "n4096" and vn != "base": continue       # openings of the large circuit: base script only (cost)
        for i, (wire, point, got) in enumerate([(0, z, ev[0]), (1, z, ev[1]), (2, z, ev[2]), (3, z, ev[3]),
                                                (0, z * omega % R, ev[4]), (1, z * omega % R, ev[5]), (3, z * omega % R, ev[6])]):
            nm = f"{cn}_{vn}_{i}"
            M.append(f"B {nm} {k} {hx(point)} {hx(b[2 * wire])} {hx(b[2 * wire + 1])} " + " ".join(hx(x) for x in cols[wire]))
            checks.append((nm, got, cn, vn, ["a(z)", "b(z)", "c(z)", "d(z)", "a(zw)", "b(zw)", "d(zw)"][i], ctx))
    rc, om, em = run_driver("\n".join(M) + "\n", "c06m", timeout=3000)
    if rc != 0: raise BuildError("C06 model run failed: " + em[-800:])
    pred = {l.split()[1]: int(l.split()[2], 16) for l in om.splitlines() if l.startswith("B ")}
    for nm, got, cn, vn, what, ctx in checks:
        ck.traces += 1
        if pred.get(nm) != got:
            ck.violation(f"opening {what} of circuit {cn} under script {vn} is not 'unmasked value + prescribed mask': proof carries {got:#x}, model predicts {pred.get(nm, 0):#x}",
                         ctx, key="opening-not-masked"); break
    # single-draw variation: round-1 commitments of the OTHER wires stay, the own one moves
    for cn in circs:
        basep = proofs.get((cn, "base"))
        if not basep: continue
        for j in range(8):
            pj = proofs.get((cn, f"draw{j}"))
            if not pj: continue
            wire = j // 2
            for w in range(4):
                same = pj[48 * w:48 * w + 48] == basep[48 * w:48 * w + 48]
                if w == wire and same:
                    ck.violation(f"changing masking draw {j} does not change the commitment of wire {'abcd'[w]} (circuit {cn}): that polynomial is not blinded by its own scalars",
                                 {"failing_input_found": True, "circuit": circs[cn][:6], "draw": j}, key="blinder-unused")
                if w != wire and not same:
                    ck.violation(f"changing masking draw {j} (wire {'abcd'[wire]}) changes the commitment of wire {'abcd'[w]} (circuit {cn})",
                                 {"failing_input_found": True, "circuit": circs[cn][:6], "draw": j}, key="blinder-shared")
        for j in range(8, 14):
            pj = proofs.get((cn, f"draw{j}"))
            if pj and pj[:192] != basep[:192]:
                ck.violation(f"draw {j} (z / quotient blinder) changes a wire commitment (circuit {cn})", {"failing_input_found": True, "draw": j}, key="blinder-order")
            if pj and pj == basep:
                ck.violation(f"draw {j} does not influence the proof at all (circuit {cn})", {"failing_input_found": True, "draw": j}, key="blinder-unused")
        fresh = proofs.get((cn, "fresh"))
        if fresh:
            shared = [f for f in range(11) if fresh[48 * f:48 * f + 48] == basep[48 * f:48 * f + 48]] + \
                     [11 + f for f in range(15) if fresh[528 + 32 * f:560 + 32 * f] == basep[528 + 32 * f:560 + 32 * f]]
            if shared:
                ck.violation(f"two proofs of the same witness under different randomness share fields {shared} (circuit {cn})", {"failing_input_found": True, "fields": shared}, key="shared-fields")
    return ck.finish(level="proof",
        rule="circuits with n = 16, n = 512 and n = 4096 (thorough: also 1024) proved under scripted RNG streams: random, all-zero, all-one, all-(r-1), fresh, and each of the 14 draws replaced individually; checks: exactly 14 draws of 64 bytes; the seven wire openings a,b,c,d(z), a,b,d(z w) equal interpolation of the witness column plus (b1 + b2 X) Z_H computed by the extracted model from the snapshot, the scripted blinders and the challenge z; round-1 commitments move exactly with their own two draws; fresh randomness shares no commitment and no evaluation",
        assumptions=["distributional zero-knowledge (simulator) is not mechanised", "the opening of z and the quotient shares are checked through draw sensitivity only"],
        checker_cmd=proofgate.CHECKER_CMD, trusted_base=proofgate.TRUSTED)

def replay(ck, path):
    print(json.dumps(json.load(open(path))["replay"], indent=1)[:2500]); return 0
