"""Proof gate: the Coq development builds (full .vo), contains no forbidden
token, and the property file's theorems print only allow-listed assumptions."""
import os, re, subprocess, time
from .common import VERIF, sh, build_coq

FORBIDDEN = re.compile(r"\b(Admitted|admit|Axiom|Axioms|Parameter|Parameters|Conjecture|Conjectures|Admit Obligations|bypass_check|Unset Guard Checking|Unset Positivity Checking|Unset Universe Checking|type-in-type|impredicative-set)\b")
# assumptions that may appear under Print Assumptions (section hypotheses never do:
# they are part of the statements). Stdlib axioms would have to be named here.
ALLOWED_AXIOMS = set()

def strip_comments(s):
    out, depth, i = [], 0, 0
    while i < len(s):
        if s.startswith("(*", i): depth += 1; i += 2; continue
        if s.startswith("*)", i) and depth: depth -= 1; i += 2; continue
        if depth == 0: out.append(s[i])
        i += 1
    return "".join(out)

def scan_forbidden():
    bad = []
    for dp, _, fs in os.walk(os.path.join(VERIF, "theories")):
        for f in fs:
            if f.endswith(".v"):
                txt = strip_comments(open(os.path.join(dp, f)).read())
                for m in FORBIDDEN.finditer(txt):
                    bad.append(f"{f}: {m.group(0)}")
    return bad

def run(ck, prop_file, theorems):
    """returns True when the gate holds; records obligations in ck"""
    ck.obligations = list(theorems)
    ok, out, dt = build_coq()
    if not ok:
        ck.violation("Coq development does not build: " + out[-1500:],
                     {"failing_input_found": False, "theorem": "build of theories/", "log": out[-3000:]})
        return False
    bad = scan_forbidden()
    if bad:
        ck.violation("forbidden token in development: " + ", ".join(bad[:5]),
                     {"failing_input_found": False, "theorem": "no Admitted/Axiom policy"})
        return False
    path = os.path.join(VERIF, "theories", "Props", prop_file)
    src = strip_comments(open(path).read())
    p = sh(f"timeout 900 coqc -Q theories PlonkV theories/Props/{prop_file}", cwd=VERIF, check=False)
    if p.returncode != 0:
        ck.violation(f"{prop_file} does not compile: " + p.stdout[-1500:],
                     {"failing_input_found": False, "theorem": prop_file})
        return False
    # Print Assumptions output: one block per theorem, in order
    blocks = re.split(r"(?=Closed under the global context|Axioms:)", p.stdout)
    blocks = [b for b in blocks if b.startswith("Closed") or b.startswith("Axioms:")]
    n_print = len(re.findall(r"Print Assumptions", src))
    axioms = set()
    for b in blocks:
        if b.startswith("Axioms:"):
            for m in re.finditer(r"^([A-Za-z_][\w.']*)\s*:", b[7:], re.M):
                axioms.add(m.group(1))
    missing = [t for t in theorems if not re.search(r"\b(Theorem|Lemma|Corollary)\s+%s\b" % re.escape(t), src)]
    unpinned = [t for t in theorems if not re.search(r"\bCheck\s+%s\s*:" % re.escape(t), src) and not re.search(r"\bCheck\s+\(?@?%s\b" % re.escape(t), src)]
    extra = axioms - ALLOWED_AXIOMS
    if missing or extra or len(blocks) < n_print or n_print < len(theorems):
        ck.violation(f"proof gate: missing={missing} unexpected axioms={sorted(extra)} print-assumption blocks={len(blocks)}/{n_print}",
                     {"failing_input_found": False, "theorem": prop_file})
        return False
    if getattr(ck, "tier", "quick") == "thorough":
        mod = "PlonkV.Props." + prop_file[:-2]
        q = sh(f"timeout 3000 coqchk -silent -o -Q theories PlonkV {mod}", cwd=VERIF, check=False)
        m = re.search(r"\* Axioms:(.*?)\n\s*\n", q.stdout, re.S)
        ax = m.group(1).strip() if m else "?"
        if q.returncode != 0 or ax != "<none>" or "type-in-type: <none>" not in q.stdout:
            ck.violation(f"coqchk re-check of {mod} failed or reports axioms: {ax[:300]} {q.stdout[-300:]}",
                         {"failing_input_found": False, "theorem": mod + " (coqchk)"})
            return False
        ck.notes.append(f"coqchk -o {mod}: Axioms <none>, no type-in-type, no unsafe fixpoints, no assumed positivity")
    ck.discharged = list(theorems)
    ck.notes.append(f"proof gate: {len(theorems)} theorems of Props/{prop_file} compiled; Print Assumptions: {'closed' if not axioms else sorted(axioms)}; coq build {dt:.1f}s")
    if unpinned:
        ck.notes.append(f"statements not pinned by Check: {unpinned}")
    return True

CHECKER_CMD = "make -f Makefile.coq (coq_makefile, full .vo build, Coq 8.16.1) + coqc theories/Props/<id>.v with Print Assumptions"
TRUSTED = [
    "Coq 8.16.1 kernel (coqc); no native_compute; vm_compute only in closed computations",
    "Axioms: none declared; Print Assumptions of every property theorem is 'Closed under the global context'",
    "Section/class hypothesis in statements: PrimeR (prime r) wherever field inverses or integrality are used",
    "Extraction: ExtrOcamlBasic + ExtrOcamlZBigInt directives only (see DESIGN.md section 7), OCaml 4.13.1, zarith 1.12, ocaml/driver.ml",
    "Correspondence: Rust harness (/verif/harness), hooks in /repo under cfg plonk_verif, python orchestration (/verif/vlib)",
    "Model is hand-written Gallina; the Rust code is modelled, not verified: tie = differential run on shared inputs",
]
