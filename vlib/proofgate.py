"""Proof gate: the Coq development builds (full .vo), contains no forbidden
token, and the property file's theorems print only allow-listed assumptions."""
import os, re, subprocess, time
from .common import VERIF, sh, build_coq

FORBIDDEN = re.compile(r"\b(Admitted|admit|Axiom|Axioms|Parameter|Parameters|Conjecture|Conjectures|Admit Obligations|bypass_check|Unset Guard Checking|Unset Positivity Checking|Unset Universe Checking|type-in-type|impredicative-set)\b")
# assumptions that may appear under Print Assumptions (section hypotheses never do:
# they are part of the statements). Stdlib axioms would have to be named here.
ALLOWED_AXIOMS = set()

def strip_comments(s):
    out, depth, i = [], 0, 0
    while i < len(s):
        if s.startswith("(*", i): depth += 1; i += 2; continue
        if s.startswith("*)", i) and depth: depth -= 1; i += 2; continue
        if depth == 0: out.append(s[i])
        i += 1
    return "".join(out)

def scan_forbidden():
    bad = []
    for dp, _, fs in os.walk(os.path.join(VERIF, "theories")):
        for f in fs:
            if f.endswith(".v"):
                txt = strip_comments(open(os.path.join(dp, f)).read())
                for m in FORBIDDEN.finditer(txt):
                    bad.append(f"{f}: {m.group(0)}")
    return bad


HYP_FILE = "Hypotheses.v"
HYP_THEOREMS = ["HYP_prime_r", "HYP_nonsquare_d"]

def _file_gate(ck, prop_file, theorems):
    """compile one Props file; returns (axioms, unpinned) or None after recording a violation"""
    path = os.path.join(VERIF, "theories", "Props", prop_file)
    src = strip_comments(open(path).read())
    p = sh(f"timeout 900 coqc -Q theories PlonkV theories/Props/{prop_file}", cwd=VERIF, check=False)
    if p.returncode != 0:
        ck.violation(f"{prop_file} does not compile: " + p.stdout[-1500:],
                     {"failing_input_found": False, "theorem": prop_file})
        return None
    # Print Assumptions output: one block per theorem, in order
    blocks = re.split(r"(?=Closed under the global context|Axioms:)", p.stdout)
    blocks = [b for b in blocks if b.startswith("Closed") or b.startswith("Axioms:")]
    n_print = len(re.findall(r"Print Assumptions", src))
    axioms = set()
    for b in blocks:
        if b.startswith("Axioms:"):
            for m in re.finditer(r"^([A-Za-z_][\w.']*)\s*:", b[7:], re.M):
                axioms.add(m.group(1))
    missing = [t for t in theorems if not re.search(r"\b(Theorem|Lemma|Corollary)\s+%s\b" % re.escape(t), src)]
    unpinned = [t for t in theorems if not re.search(r"\bCheck\s+%s\s*:" % re.escape(t), src) and not re.search(r"\bCheck\s+\(?@?%s\b" % re.escape(t), src)]
    extra = axioms - ALLOWED_AXIOMS
    if missing or extra or len(blocks) < n_print or n_print < len(theorems):
        ck.violation(f"proof gate ({prop_file}): missing={missing} unexpected axioms={sorted(extra)} print-assumption blocks={len(blocks)}/{n_print}",
                     {"failing_input_found": False, "theorem": prop_file})
        return None
    return axioms, unpinned


def _coqchk_hypotheses():
    """coqchk of Props/Hypotheses (8 min: it re-checks MathComp); cached on the hash of the
    sources it depends on, serialised by a lock so that parallel thorough runs pay once"""
    import hashlib, json, fcntl
    files = ["Props/Hypotheses.v"]
    for d in ("Base", "Gates", "Alg", "Curve"):
        files += sorted(os.path.join(d, f) for f in os.listdir(os.path.join(VERIF, "theories", d)) if f.endswith(".v"))
    h = hashlib.sha256()
    for f in files:
        h.update(open(os.path.join(VERIF, "theories", f), "rb").read())
    key = h.hexdigest()
    cdir = os.path.join(VERIF, ".cache"); os.makedirs(cdir, exist_ok=True)
    cfile = os.path.join(cdir, "coqchk_hypotheses.json")
    with open(os.path.join(cdir, "coqchk_hypotheses.lock"), "w") as lk:
        fcntl.flock(lk, fcntl.LOCK_EX)
        try:
            c = json.load(open(cfile))
            if c.get("key") == key and c.get("ok") is True:
                return True
        except Exception:
            pass
        q = sh("timeout 3000 coqchk -silent -o -Q theories PlonkV PlonkV.Props.Hypotheses", cwd=VERIF, check=False)
        m = re.search(r"\* Axioms:(.*?)\n\s*\n", q.stdout, re.S)
        ax = m.group(1).strip() if m else "?"
        ok = q.returncode == 0 and ax == "<none>" and "type-in-type: <none>" in q.stdout
        json.dump({"key": key, "ok": ok, "axioms": ax}, open(cfile, "w"))
        return True if ok else f"axioms={ax} tail={q.stdout[-300:]}"

def run(ck, prop_file, theorems):
    """returns True when the gate holds; records obligations in ck"""
    ck.obligations = list(theorems)
    ok, out, dt = build_coq()
    if not ok:
        ck.violation("Coq development does not build: " + out[-1500:],
                     {"failing_input_found": False, "theorem": "build of theories/", "log": out[-3000:]})
        return False
    bad = scan_forbidden()
    if bad:
        ck.violation("forbidden token in development: " + ", ".join(bad[:5]),
                     {"failing_input_found": False, "theorem": "no Admitted/Axiom policy"})
        return False
    r = _file_gate(ck, prop_file, theorems)
    if r is None:
        return False
    axioms, unpinned = r
    # the hypotheses carried by the statements (PrimeR, NonSquareD) are themselves theorems
    if _file_gate(ck, HYP_FILE, HYP_THEOREMS) is None:
        return False
    if getattr(ck, "tier", "quick") == "thorough":
        mod = "PlonkV.Props." + prop_file[:-2]
        q = sh(f"timeout 3000 coqchk -silent -o -Q theories PlonkV {mod}", cwd=VERIF, check=False)
        m = re.search(r"\* Axioms:(.*?)\n\s*\n", q.stdout, re.S)
        ax = m.group(1).strip() if m else "?"
        if q.returncode != 0 or ax != "<none>" or "type-in-type: <none>" not in q.stdout:
            ck.violation(f"coqchk re-check of {mod} failed or reports axioms: {ax[:300]} {q.stdout[-300:]}",
                         {"failing_input_found": False, "theorem": mod + " (coqchk)"})
            return False
        ck.notes.append(f"coqchk -o {mod}: Axioms <none>, no type-in-type, no unsafe fixpoints, no assumed positivity")
        hy = _coqchk_hypotheses()
        if hy is not True:
            ck.violation("coqchk re-check of PlonkV.Props.Hypotheses failed or reports axioms: " + str(hy)[:400],
                         {"failing_input_found": False, "theorem": "PlonkV.Props.Hypotheses (coqchk)"})
            return False
        ck.notes.append("coqchk -o PlonkV.Props.Hypotheses (r prime, d non-square; includes MathComp's Fermat): Axioms <none> (result cached per source hash)")
    ck.discharged = list(theorems)
    ck.notes.append(f"proof gate: {len(theorems)} theorems of Props/{prop_file} compiled; Print Assumptions: {'closed' if not axioms else sorted(axioms)}; coq build {dt:.1f}s")
    if unpinned:
        ck.notes.append(f"statements not pinned by Check: {unpinned}")
    return True

CHECKER_CMD = "make -f Makefile.coq (coq_makefile, full .vo build, Coq 8.16.1) + coqc theories/Props/<id>.v with Print Assumptions"
TRUSTED = [
    "Coq 8.16.1 kernel (coqc); no native_compute; vm_compute only in closed computations",
    "Axioms: none declared; Print Assumptions of every property theorem is 'Closed under the global context'",
    "Class hypotheses in statements: PrimeR (prime r) and NonSquareD (Jubjub d non-square); both are proved without assumptions in Props/Hypotheses.v (Lucas certificate for r evaluated by vm_compute in the kernel; Fermat's little theorem from MathComp; Euler criterion for d), so each statement can be instantiated to an unconditional one",
    "Extraction: ExtrOcamlBasic + ExtrOcamlZBigInt directives only (see DESIGN.md section 7), OCaml 4.13.1, zarith 1.12, ocaml/driver.ml",
    "Correspondence: Rust harness (/verif/harness), hooks in /repo under cfg plonk_verif, python orchestration (/verif/vlib)",
    "Model is hand-written Gallina; the Rust code is modelled, not verified: tie = differential run on shared inputs",
]
