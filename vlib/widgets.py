"""L1 tie: the five widget formulas, three forms each (prover quotient term,
prover linearisation coefficient, verifier linearisation scalar) against the
model's single formula (Gates/Gate.v: t_arith, t_range, t_logic, t_fixed, t_var)."""
from .common import *

NAMES = ["arith", "range", "logic", "fixed", "var"]
FORMS = ["prover quotient compute_quotient_i", "prover compute_linearization", "verifier compute_linearization_commitment"]

def lattice(rng):
    c = rng.randrange(8)
    if c == 0: return rng.choice([0, 1, 2, 3, 4, R - 1, R - 2])
    if c == 1: return 1 << rng.randrange(255)
    return rng.scalar()

def run_tie(ck, n, rng, name="widgets"):
    """returns list of (widget, form, tuple-line, impl, model)"""
    lines = []
    for i in range(n):
        vals = [lattice(rng) for _ in range(22)]
        if i % 5 == 1:   # single widget selected, others off
            k = rng.randrange(5)
            for j in range(6, 11): vals[j] = 0
            vals[6 + k] = rng.choice([1, R - 1, rng.scalar()])
        if i % 7 == 3:   # near-satisfying quads
            vals[18] = rng.small(); vals[17] = (4 * vals[18] + rng.randrange(5)) % R
            vals[16] = (4 * vals[17] + rng.randrange(5)) % R; vals[15] = (4 * vals[16] + rng.randrange(5)) % R
            vals[21] = (4 * vals[15] + rng.randrange(5)) % R
        lines.append(f"T t{i} " + " ".join(hx(v) for v in vals))
    text = "\n".join(lines) + "\n"
    rc, oi, ei = run_harness(text, name, mode="widgets")
    if rc != 0: raise BuildError("widgets harness failed: " + ei[-1500:])
    rc, om, em = run_driver(text, name)
    if rc != 0: raise BuildError("widgets driver failed: " + em[-1500:])
    di = {l.split()[1]: l.split()[2:] for l in oi.splitlines() if l.startswith("T ")}
    dm = {l.split()[1]: l.split()[2:] for l in om.splitlines() if l.startswith("T ")}
    bad = []
    for l in lines:
        nm = l.split()[1]
        ck.count(("wt", l), kind="widget tuples")
        a, b = di.get(nm), dm.get(nm)
        if a is None or b is None or len(a) != 15:
            bad.append(("?", "?", l, a, b)); continue
        for k in range(15):
            if a[k] != b[k]:
                bad.append((NAMES[k // 3], FORMS[k % 3], l, a[k], b[k]))
    ck.traces += len(lines)
    return bad
