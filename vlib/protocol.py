"""Protocol-level scripts for the Rust harness (mode 'protocol')."""
from .common import *

class Script:
    def __init__(self):
        self.lines = []
        self.n = 0
        self.circuits = {}
    def circuit(self, name, body):
        self.circuits[name] = list(body)
        self.lines.append(f"circuit {name}")
        self.lines += body
        self.lines.append("endcircuit")
    def cmd(self, *args):
        self.n += 1
        cid = f"c{self.n}"
        self.lines.append(cid + " " + " ".join(str(a) for a in args))
        return cid
    def text(self):
        return "\n".join(self.lines) + "\n"

def run(script, name, checked=False, timeout=3000):
    rc, out, err = run_harness(script.text(), name, mode="protocol", checked=checked, timeout=timeout)
    if rc != 0:
        raise BuildError(f"protocol harness exited {rc}: {err[-2000:]}")
    res = {}
    cur = None
    for line in out.splitlines():
        if re.match(r"^P c\d+( |$)", line):
            t = line.split(" ", 2)
            cur = t[1]; res[cur] = t[2] if len(t) > 2 else ""
        elif cur is not None:
            res[cur] += "\n" + line
    return res

def parse_snapshot(text):
    """result of a 'snapshot' command -> Snapshot"""
    lines = [l for l in text.splitlines()[1:] if l != "ENDSNAP"]
    return Snapshot(lines)

def status(r):
    return r.split()[0] if r else "?"
def errkind(r):
    t = r.split()
    return t[1] if len(t) > 1 and t[0] == "ERR" else None

# ------------------------------------------------------------ circuit generators
def filler(n, rng):
    """n satisfied arithmetic gates (c = a*b + 3)"""
    L = ["w " + hx(rng.small()), "w " + hx(rng.small())]
    for i in range(n):
        L.append(f"gmul 1 0 0 0 0 3 - $0 $1 0 0")
    return L

def gadget_circuit(rng, kinds=None, size_hint=0):
    """a satisfied circuit mixing gadgets; returns body lines"""
    kinds = kinds or ["arith", "range", "logic", "trunc", "decomp", "pub", "sel", "bool"]
    L = ["w " + hx(rng.randrange(1 << 20)), "w " + hx(rng.randrange(1 << 20)), "w " + hx(rng.choice([0, 1]))]
    nres = 3
    for _ in range(rng.randrange(2, 6)):
        k = rng.choice(kinds)
        if k == "arith":
            L.append(f"gadd 0 2 3 0 0 5 - $0 $1 0 0"); nres += 1
        elif k == "range":
            L.append(f"rbits {rng.choice([20, 21, 32, 64, 254])} $0")
        elif k == "logic":
            L.append(f"{rng.choice(['land','lxor'])} {rng.choice([1, 4, 10, 16])} $0 $1"); nres += 1
        elif k == "trunc":
            L.append(f"trunc {rng.choice([3, 8, 16, 40])} $1"); nres += 1
        elif k == "decomp":
            n = rng.choice([20, 24]); L.append(f"decomp {n} $0"); nres += n
        elif k == "pub":
            L.append("pub " + hx(rng.scalar())); nres += 1
        elif k == "sel":
            L.append("sel $2 $0 $1"); nres += 1
        elif k == "bool":
            L.append("bool $2")
    for _ in range(size_hint):
        L.append("gmul 1 0 0 0 0 3 - $0 $1 0 0")
    return L

# ------------------------------------------------------------ real prover as second opinion
def real_prover_verdicts(cases, name, pp_log=13, timeout=3000):
    """cases: [(id, body_lines, {witness index: value})].  The circuit is compiled from the honest
    body; the prover is then run on body + witness overrides (same layout, adversarial assignment)
    and any returned proof is verified.  -> {id: 'ACCEPTED' | 'REJECTED:<kind>' | 'ERROR:<text>'}"""
    S = Script()
    S.cmd("pp", "pp", 1 << pp_log, 3)
    ids = {}
    for cid, body, over in cases:
        body = [l for l in body if l != "snap"]
        S.circuit(f"h{cid}", body)
        S.circuit(f"a{cid}", body + [f"setw {i} {hx(v)}" for i, v in sorted(over.items())])
        c1 = S.cmd("compile", f"k{cid}", "pp", "7c", f"h{cid}")
        c2 = S.cmd("prove", f"p{cid}", f"k{cid}", f"a{cid}", 77)
        c3 = S.cmd("verify", f"k{cid}", f"p{cid}", "=")
        ids[cid] = (c1, c2, c3)
    res = run(S, name, timeout=timeout)
    out = {}
    for cid, (c1, c2, c3) in ids.items():
        if status(res.get(c1, "")) != "OK": out[cid] = "ERROR:compile " + res.get(c1, "")[:80]
        elif status(res.get(c2, "")) != "OK": out[cid] = "REJECTED:" + (errkind(res[c2]) or res[c2][:40])
        elif status(res.get(c3, "")) == "OK": out[cid] = "ACCEPTED"
        else: out[cid] = "REJECTED:verifier " + res.get(c3, "")[:40]
    return out
