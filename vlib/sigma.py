"""The compiled copy permutation, read back from Prover::to_bytes(): sigma as a map on the 4n cells, and its cycles.
Used to tie 'the compiled copy constraints' (cycles of the real sigma) to the witness classes of the layout
(the object of C05_sigma_rotates_classes / C05_copy_constraints_meaning)."""
from .common import R, npo2

W32 = 0x16a2a19edfe81f20d09b681922c813b4b63683508c2280b93829971f439f0d2b
KS = [1, 7, 13, 17]

def prover_key_region(pv):
    label_len, pk_len = int.from_bytes(pv[0:8], "big"), int.from_bytes(pv[8:16], "big")
    off = 48 + label_len
    return pv[off:off + pk_len]

def sigma_polys(pk):
    """coefficients (ints) of s_sigma_1..4"""
    n = int.from_bytes(pk[0:8], "little"); ev_sz = int.from_bytes(pk[8:16], "little")
    off = 16; polys = []
    for entry in range(15):
        L = int.from_bytes(pk[off:off + 8], "little")
        co = [int.from_bytes(pk[off + 8 + 32 * j:off + 40 + 32 * j], "little") for j in range(L)]
        polys.append(co)
        off += 8 + 32 * L + ev_sz
    return n, polys[11:15]

def sigma_map(pv):
    """{(wire, row): (wire', row')} for all 4n cells, or raises ValueError when a value is not a label"""
    n, sig = sigma_polys(prover_key_region(pv))
    lg = n.bit_length() - 1
    w = pow(W32, 1 << (32 - lg), R)
    pts = [pow(w, i, R) for i in range(n)]
    label = {KS[j] * pts[i] % R: (j, i) for j in range(4) for i in range(n)}
    out = {}
    for j in range(4):
        co = sig[j]
        for i, x in enumerate(pts):
            v = 0
            for c in reversed(co): v = (v * x + c) % R
            if v not in label: raise ValueError(f"s_sigma_{j + 1}(w^{i}) is not a position label")
            out[(j, i)] = label[v]
    return n, out

def cycles(n, sg):
    seen, cyc = set(), []
    for c in sg:
        if c in seen: continue
        cur, cy = c, []
        while cur not in seen:
            seen.add(cur); cy.append(cur); cur = sg[cur]
        cyc.append(frozenset(cy))
    return set(cyc)

def witness_classes(snap, n):
    """cells grouped by witness index from the layout; cells of the padding rows (beyond the constraints) are not
    part of any class (the prover fills them with literal zeros; sigma is the identity there)"""
    cl, out = {}, set()
    m = len(snap.gates)
    for i in range(n):
        if i < m:
            for j, wi in enumerate(snap.gates[i][1]): cl.setdefault(wi, set()).add((j, i))
        else:
            for j in range(4): out.add(frozenset([(j, i)]))
    return out | set(frozenset(v) for v in cl.values())
