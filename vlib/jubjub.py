"""JubJub arithmetic over Fr for INPUT GENERATION and search only (never an oracle:
verdicts come from the extracted Gallina model / proved evaluator)."""
from .common import R, D_ED

RJ = 0x0e7db4ea6533afa906673b0101343b00a6682093ccc81082d0970e5ed6f72cb7
GEN = (0x3fd2814c43ac65a6f1fbf02d0fd6cce62e3ebb21fd6c54ed4df7b7ffec7beaca, 0x12)
GEN_NUMS = (0x5e67b8f316f414f7bd9514c773fd4456931e316a39fe4541921710179df76377, 0x43d80eb3b2f3eb1b7b162dbeeb3b34fd9949ba0f82a5507a6705b707162e3ef8)
ID = (0, 1)

def inv(x): return pow(x % R, R - 2, R)

def sqrt(a):
    """Tonelli-Shanks in Fr (2-adicity 32); None if a is a non-residue"""
    a %= R
    if a == 0: return 0
    if pow(a, (R - 1) // 2, R) != 1: return None
    s, q = 32, (R - 1) >> 32
    z = 7
    while pow(z, (R - 1) // 2, R) == 1: z += 1
    m, c, t, x = s, pow(z, q, R), pow(a, q, R), pow(a, (q + 1) // 2, R)
    while t != 1:
        i, t2 = 0, t
        while t2 != 1: t2 = t2 * t2 % R; i += 1
        b = pow(c, 1 << (m - i - 1), R)
        m, c = i, b * b % R
        t, x = t * c % R, x * b % R
    return x

def on_curve(p):
    x, y = p
    return (y * y - x * x - 1 - D_ED * x * x % R * y * y) % R == 0

def add(p, q):
    (x1, y1), (x2, y2) = p, q
    t = D_ED * x1 % R * y2 % R * y1 % R * x2 % R
    if (1 + t) * (1 - t) % R == 0: return ID
    return ((x1 * y2 + y1 * x2) * inv(1 + t) % R, (y1 * y2 + x1 * x2) * inv(1 - t) % R)

def neg(p): return ((-p[0]) % R, p[1])
def dbl(p): return add(p, p)

def mul(k, p):
    acc = ID
    for i in reversed(range(max(k.bit_length(), 1))):
        acc = dbl(acc)
        if (k >> i) & 1: acc = add(acc, p)
    return acc

def point_with_x(x):
    """y with (x, y) on the curve, or None:  y^2 = (1 + x^2) / (1 - d x^2)"""
    den = (1 - D_ED * x * x) % R
    if den == 0: return None
    y = sqrt((1 + x * x) * inv(den) % R)
    return None if y is None else (x % R, y)

def random_curve_point(rng):
    while True:
        p = point_with_x(rng.scalar())
        if p: return p if rng.randrange(2) else (p[0], (-p[1]) % R)

def random_subgroup_point(rng):
    return mul(8, random_curve_point(rng))

def torsion_points():
    """the 8 points of order dividing 8 (deterministic search)"""
    x = 2
    while True:
        p = point_with_x(x); x += 1
        if not p: continue
        t = mul(RJ, p)
        if mul(4, t) != ID:            # exact order 8
            return [mul(i, t) for i in range(8)]

def order(p):
    for k in (1, 2, 4, 8):
        if mul(k, p) == ID: return k
    return None

def wnaf2(k):
    ds = []
    while k >= 1:
        if k & 1:
            m = k % 4; d = m if m < 2 else m - 4
            ds.append(d); k -= d
        else: ds.append(0)
        k >>= 1
    return ds + [0] * (256 - len(ds))

def digits_str(ds): return "".join({0: "0", 1: "+", -1: "-", 2: "x"}[d] for d in ds)
def ext(p, z=1):
    """extended representation (U, V, Z, T1, T2) of an affine point with the given Z"""
    return (p[0] * z % R, p[1] * z % R, z % R, p[0] * z % R, p[1])   # T1*T2 = x*y*Z
