"""L3 tie: run generated composer programs through the real Composer (Rust
harness) and the extracted Gallina model; compare canonical snapshots; then
probe the REAL snapshot with adversarial assignments (exactness probe)."""
import json, os
from .common import *

def run_both(ck, script, name, checked=False):
    rc, out_i, err_i = run_harness(script, name, "composer", checked=checked)
    if rc != 0:
        raise BuildError(f"harness exited {rc}: {err_i[-2000:]}")
    rc, out_m, err_m = run_driver(script, name)
    if rc != 0:
        raise BuildError(f"model driver exited {rc}: {err_m[-2000:]}")
    return split_programs(out_i), split_programs(out_m)

def compare_programs(ck, progs, impl, model, prop_desc):
    """progs: {name: script text}. returns list of (name, diff)"""
    bad = []
    for name in progs:
        li, lm = impl.get(name), model.get(name)
        if li is None or lm is None:
            bad.append((name, "program missing from output")); continue
        lm = [l for l in lm if not l.startswith("SAT")]
        si, sm = Snapshot(li), Snapshot(lm)
        d = diff_snapshots(si.canonical(), sm.canonical())
        ck.traces += 1
        if d: bad.append((name, d))
    return bad

def load_script(snap: Snapshot, wits=None):
    """driver script that loads a (real) snapshot into the model evaluator"""
    L = ["clear"]
    for v in (wits if wits is not None else snap.wits):
        L.append("LW " + hx(v))
    for i, (sel, wires) in enumerate(snap.gates):
        pi = hx(snap.pis[i]) if i in snap.pis else "-"
        L.append("LG " + " ".join(hx(x) for x in sel) + " " + " ".join(map(str, wires)) + " " + pi)
    return L

def model_sat(snaps_with_wits, name):
    """[(label, Snapshot, wits)] -> {label: first bad row or None}; evaluated by
    the extracted, proved-sound evaluator (C08_evaluator_decides_sat)."""
    L = []
    for label, snap, wits in snaps_with_wits:
        L.append(f"prog {label}")
        L += load_script(snap, wits)
        L.append("sat")
    rc, out, err = run_driver("\n".join(L) + "\n", name)
    if rc != 0:
        raise BuildError("driver failed in model_sat: " + err[-1000:])
    res = {}
    for label, lines in split_programs(out).items():
        for l in lines:
            if l.startswith("SAT ok"): res[label] = None
            elif l.startswith("SAT bad"): res[label] = int(l.split()[2])
    return res

def forward_recompute(snap: Snapshot, wits, first_new, start_row=0):
    """After perturbing a wire: re-solve, row by row, every arithmetic row whose
    c wire is a gadget-allocated witness first appearing in that row (the
    output pattern of gate_add/gate_mul/append_evaluated_output)."""
    w = list(wits)
    seen = set()
    for i, (sel, wires) in enumerate(snap.gates):
        qm, ql, qr, qo, qf, qc, qar = sel[:7]
        a, b, c, d = wires
        if i >= start_row and qar and qo and c >= first_new and c not in seen and c not in (a, b, d):
            x = (qm * w[a] * w[b] + ql * w[a] + qr * w[b] + qf * w[d] + qc + snap.pis.get(i, 0)) % R
            w[c] = (-x * pow(qo, R - 2, R)) % R
        seen.update(wires)
    return w

def free_wire_probe(ck, name, snap: Snapshot, first_new, outputs, rng, max_targets=12, key_prefix=""):
    """Exactness probe on the real snapshot. (1) honest values must satisfy
    every row. (2) every gadget-allocated witness is perturbed in turn,
    dependent outputs recomputed; an assignment satisfying all rows while a
    returned witness (or any wired witness) changed is a uniqueness failure."""
    bad = first_bad_row(snap.gates, snap.pis, snap.wits)
    if bad is not None:
        return ("completeness", f"honest witness values violate row {bad} of the emitted layout", {"row": bad})
    targets = list(range(first_new, len(snap.wits)))
    wired = set(w for _, ws in snap.gates for w in ws)
    targets = [t for t in targets if t in wired]
    if len(targets) > max_targets:
        targets = rng.r.sample(targets, max_targets)
    for t in targets:
        w2 = list(snap.wits)
        w2[t] = (w2[t] + 1 + rng.small(8)) % R
        w2 = forward_recompute(snap, w2, first_new)
        if w2[t] == snap.wits[t]:
            continue   # the wire is itself a recomputed output
        ck.count(("probe", name, t), kind="free-wire probes")
        if first_bad_row(snap.gates, snap.pis, w2) is None:
            changed = [o for o in outputs if w2[o] != snap.wits[o]]
            if not changed:
                continue   # a free internal wire that moves no returned witness is not a violation
            return ("uniqueness", f"witness {t} can be changed (+outputs {changed}) and every row of the real layout is still satisfied",
                    {"perturbed_witness": t, "assignment": [hx(x) for x in w2], "changed_outputs": changed})
    return None
