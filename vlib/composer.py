"""L3 tie: run generated composer programs through the real Composer (Rust
harness) and the extracted Gallina model; compare canonical snapshots; then
probe the REAL snapshot with adversarial assignments (exactness probe)."""
import json, os
from .common import *

def run_both(ck, script, name, checked=False):
    rc, out_i, err_i = run_harness(script, name, "composer", checked=checked)
    if rc != 0:
        raise BuildError(f"harness exited {rc}: {err_i[-2000:]}")
    rc, out_m, err_m = run_driver(script, name)
    if rc != 0:
        raise BuildError(f"model driver exited {rc}: {err_m[-2000:]}")
    return split_programs(out_i), split_programs(out_m)

def compare_programs(ck, progs, impl, model, prop_desc):
    """progs: {name: script text}. returns list of (name, diff)"""
    bad = []
    for name in progs:
        li, lm = impl.get(name), model.get(name)
        if li is None or lm is None:
            bad.append((name, "program missing from output")); continue
        lm = [l for l in lm if not l.startswith("SAT")]
        si, sm = Snapshot(li), Snapshot(lm)
        d = diff_snapshots(si.canonical(), sm.canonical())
        ck.traces += 1
        if d: bad.append((name, d))
    return bad

def load_script(snap: Snapshot, wits=None):
    """driver script that loads a (real) snapshot into the model evaluator"""
    L = ["clear"]
    for v in (wits if wits is not None else snap.wits):
        L.append("LW " + hx(v))
    for i, (sel, wires) in enumerate(snap.gates):
        pi = hx(snap.pis[i]) if i in snap.pis else "-"
        L.append("LG " + " ".join(hx(x) for x in sel) + " " + " ".join(map(str, wires)) + " " + pi)
    return L

def _model_sat_shard(args):
    shard, name = args
    L = []
    for label, snap, wits in shard:
        L.append(f"prog {label}")
        L += load_script(snap, wits)
        L.append("sat")
    rc, out, err = run_driver("\n".join(L) + "\n", name)
    if rc != 0:
        raise BuildError("driver failed in model_sat: " + err[-1000:])
    res = {}
    for label, lines in split_programs(out).items():
        for l in lines:
            if l.startswith("SAT ok"): res[label] = None
            elif l.startswith("SAT bad"): res[label] = int(l.split()[2])
    return res

def model_sat(snaps_with_wits, name, shards=16):
    """[(label, Snapshot, wits)] -> {label: first bad row or None}; evaluated by
    the extracted, proved-sound evaluator (C08_evaluator_decides_sat)."""
    from concurrent.futures import ThreadPoolExecutor
    jobs = list(snaps_with_wits)
    if not jobs: return {}
    k = max(1, min(shards, len(jobs) // 8 or 1))
    parts = [(jobs[i::k], f"{name}_{i}") for i in range(k)]
    res = {}
    with ThreadPoolExecutor(max_workers=k) as ex:
        for r_ in ex.map(_model_sat_shard, parts):
            res.update(r_)
    return res

def forward_recompute(snap: Snapshot, wits, first_new, start_row=0):
    """After perturbing a wire: re-solve, row by row, every arithmetic row whose
    c wire is a gadget-allocated witness first appearing in that row (the
    output pattern of gate_add/gate_mul/append_evaluated_output)."""
    w = list(wits)
    seen = set()
    for i, (sel, wires) in enumerate(snap.gates):
        qm, ql, qr, qo, qf, qc, qar = sel[:7]
        a, b, c, d = wires
        if i >= start_row and qar and qo and c >= first_new and c not in seen and c not in (a, b, d):
            x = (qm * w[a] * w[b] + ql * w[a] + qr * w[b] + qf * w[d] + qc + snap.pis.get(i, 0)) % R
            w[c] = (-x * pow(qo, R - 2, R)) % R
        seen.update(wires)
    return w

def free_wire_probe(ck, name, snap: Snapshot, first_new, outputs, rng, max_targets=12, key_prefix=""):
    """Exactness probe on the real snapshot. (1) honest values must satisfy
    every row. (2) every gadget-allocated witness is perturbed in turn,
    dependent outputs recomputed; an assignment satisfying all rows while a
    returned witness (or any wired witness) changed is a uniqueness failure."""
    bad = first_bad_row(snap.gates, snap.pis, snap.wits)
    if bad is not None:
        return ("completeness", f"honest witness values violate row {bad} of the emitted layout", {"row": bad})
    targets = list(range(first_new, len(snap.wits)))
    wired = set(w for _, ws in snap.gates for w in ws)
    targets = [t for t in targets if t in wired]
    if len(targets) > max_targets:
        targets = rng.r.sample(targets, max_targets)
    for t in targets:
        w2 = list(snap.wits)
        w2[t] = (w2[t] + 1 + rng.small(8)) % R
        w2 = forward_recompute(snap, w2, first_new)
        if w2[t] == snap.wits[t]:
            continue   # the wire is itself a recomputed output
        ck.count(("probe", name, t), kind="free-wire probes")
        if first_bad_row(snap.gates, snap.pis, w2) is None:
            changed = [o for o in outputs if w2[o] != snap.wits[o]]
            if not changed:
                continue   # a free internal wire that moves no returned witness is not a violation
            return ("uniqueness", f"witness {t} can be changed (+outputs {changed}) and every row of the real layout is still satisfied",
                    {"perturbed_witness": t, "assignment": [hx(x) for x in w2], "changed_outputs": changed})
    return None

# ---------------------------------------------------------------- generic re-witnessing on a REAL layout
def _is_aeq(sel):
    qm, ql, qr, qo, qf, qc, qar = sel[:7]
    return qar == 1 and qm == 0 and ql == 1 and qr == R - 1 and qo == 0 and qf == 0 and qc == 0 and not any(sel[7:])

def _is_bool(sel, wires):
    qm, ql, qr, qo, qf, qc, qar = sel[:7]
    return qar == 1 and qm == 1 and ql == 0 and qr == 0 and qo == R - 1 and qf == 0 and qc == 0 and wires[0] == wires[1] == wires[2]

def rewitness(snap: Snapshot, wits, frozen=(), first_new=0, overflow=False):
    """Recompute, in row order, every witness the honest generator derives from
    earlier ones, leaving [frozen] (adversarially chosen) untouched:
      * c wire of an arithmetic row with q_o != 0 when c is first used there;
      * the accumulators of a range block from the current value of the wire
        the closing assert_equal binds them to;
      * the (lower, top_bit) split of an odd-width range check.
    Works on whatever layout the real code emitted (also a mutated one).
    overflow=True: the accumulators are the unmasked shifts of the bound value, so
    whatever does not fit lands in the FIRST cell of the chain (adversarial fill)."""
    w = list(wits)
    frozen = set(frozen)
    gates = snap.gates
    seen = set()
    i = 0
    n = len(gates)
    while i < n:
        sel, wires = gates[i]
        qm, ql, qr, qo, qf, qc, qar, qra = sel[:8]
        if qra:
            # range block: rows i..j-1 selected, row j closes the chain
            j = i
            while j < n and gates[j][0][7]: j += 1
            if j < n:
                flat = []
                for k in range(i, j + 1):
                    a, b, c, d = gates[k][1]
                    flat += [d, c, b, a] if k < j else [d]
                accs = [x for x in flat if x != 0]
                # drop consecutive duplicates keeping order
                seq_ = []
                for x in accs:
                    if not seq_ or seq_[-1] != x: seq_.append(x)
                if j + 1 < n and _is_aeq(gates[j + 1][0]) and seq_ and gates[j + 1][1][0] == seq_[-1]:
                    x = gates[j + 1][1][1]
                    # odd-width pattern right after the closing assert_equal?
                    if j + 4 < n and x not in frozen and x >= first_new:
                        s1, w1 = gates[j + 2]; s2, w2 = gates[j + 3]; s3, w3 = gates[j + 4]
                        if _is_bool(s1, w1) and s2[6] == 1 and s2[1] == 1 and s2[3] == R - 1 and w2[0] == x and w2[1] == w1[0] and _is_aeq(s3) and w3[0] == w2[2]:
                            top = s2[2].bit_length() - 1
                            if s2[2] == 1 << top:
                                v = w[w3[1]]
                                if x not in frozen: w[x] = v % (1 << top)
                                if w1[0] not in frozen: w[w1[0]] = (v >> top) % R
                    v = w[x]
                    c = len(seq_)
                    for t, a_ in enumerate(seq_):
                        if a_ not in frozen and a_ >= first_new:
                            w[a_] = ((v >> (2 * (c - 1 - t))) % R) if overflow else ((v >> (2 * (c - 1 - t))) % (1 << (2 * (t + 1)))) % R
                for k in range(i, j + 1): seen.update(gates[k][1])
                i = j + 1
                continue
        a, b, c, d = wires
        # is-zero pattern: product = diff * inverse with `inverse` a fresh free witness
        if (qar == 1 and qm == 1 and ql == 0 and qr == 0 and qo == R - 1 and b >= first_new and b not in seen
                and b not in frozen and b not in (a, c, d) and a in seen):
            w[b] = pow(w[a], R - 2, R) if w[a] else 0
        if qar and qo and c >= first_new and c not in seen and c not in (a, b, d) and c not in frozen and not any(sel[7:]):
            x = (qm * w[a] * w[b] + ql * w[a] + qr * w[b] + qf * w[d] + qc + snap.pis.get(i, 0)) % R
            w[c] = (-x * pow(qo, R - 2, R)) % R
        seen.update(wires)
        i += 1
    return w


# ---------------------------------------------------------------- real prover / verifier as second opinion
def second_opinion(ck, jobs, expect, progs, prog_of, name, pick, limit=8, pp_log=13):
    """For adversarial assignments the property requires to be unsatisfiable: push them through the REAL
    Prover::prove (honest layout compiled from the script, witness overrides via setw) and Verifier::verify.
    Returns [(job name, overrides)] that were ACCEPTED -- a concrete proof of a false statement."""
    from . import protocol
    cases = []
    for nm, snap, w2 in jobs:
        if expect.get(nm) is not False or not pick(nm): continue
        if len(cases) >= limit: break
        over = {} if w2 is None else {i: v for i, v in enumerate(w2) if i < len(snap.wits) and v != snap.wits[i]}
        cases.append((nm, progs[prog_of(nm)], over))
    if not cases: return []
    verd = protocol.real_prover_verdicts(cases, name, pp_log=pp_log)
    acc = []
    for nm, body, over in cases:
        ck.count(("rp", nm), kind="real prover on adversarial assignment")
        v = verd.get(nm, "ERROR:missing")
        if v == "ACCEPTED": acc.append((nm, over))
        elif v.startswith("ERROR"): raise BuildError(f"real-prover second opinion failed on {nm}: {v}")
    return acc


def rewired_raw_instance(snap, first=6):
    """Deviating prover for an honest run on a FALSE input: every arithmetic-only row the honest assignment leaves
    unsatisfied is repaired by re-wiring ONE of its cells (one that is shared with a widget-selected row or the row
    after it) to a fresh witness holding the value that solves the row.  Every row of the result holds; only the
    compiled copy constraint between the re-wired cell and the widget cell is violated.
    Returns (script body in raw rows, number of re-wired cells) or None when nothing needed / could be repaired."""
    g = snap.gates
    region = set()
    for i, (sel, wires) in enumerate(g):
        if any(sel[7:11]):
            region.update((i, i + 1))
    region_wits = {w for i in region if i < len(g) for w in g[i][1] if w >= first}
    wits = list(snap.wits)
    rows = [list(wires) for _, wires in g]
    rewired = 0
    for i, (sel, wires) in enumerate(g):
        if i < 4 or any(sel[7:11]) or not sel[6]: continue
        qm, ql, qr, qo, qf, qc = sel[:6]
        pi = snap.pis.get(i, 0)
        a, b, c, d = (wits[w] for w in wires)
        val = (qm * a * b + ql * a + qr * b + qo * c + qf * d + qc + pi) % R
        if val == 0: continue
        fixed = False
        for pos, coef in ((0, ql), (1, qr), (2, qo), (3, qf)):
            if qm and pos in (0, 1): continue
            if coef % R == 0 or wires[pos] not in region_wits: continue
            if list(wires).count(wires[pos]) != 1: continue
            cur = wits[wires[pos]]
            new = (cur - val * pow(coef, R - 2, R)) % R
            wits.append(new); rows[i][pos] = len(wits) - 1
            rewired += 1; fixed = True
            break
        if not fixed: return None
    if not rewired: return None
    body = ["w " + hx(v) for v in wits[first:]]
    for i in range(4, len(g)):
        sel = g[i][0]
        co = list(sel[:6]) + [snap.pis.get(i, 0)] + list(sel[6:11])
        body.append("raw " + " ".join(hx(x) for x in co) + (" 1 " if i in snap.pis else " 0 ") + " ".join(str(x) for x in rows[i]))
    return body, rewired


def rewired_prover_verdicts(cases, name, pp_log=12):
    """cases: [(id, honest body (true statement, same layout), raw body of the deviating prover)] -> {id: verdict}"""
    from . import protocol
    S = protocol.Script(); S.cmd("pp", "pp", 1 << pp_log, 3)
    ids = {}
    for cid, honest, raw in cases:
        S.circuit("A" + cid, [l for l in honest if l != "snap"]); S.circuit("B" + cid, raw)
        ids[cid] = (S.cmd("compile", "k" + cid, "pp", "7e", "A" + cid), S.cmd("prove", "p" + cid, "k" + cid, "B" + cid, 67), S.cmd("verify", "k" + cid, "p" + cid, "="))
    res = protocol.run(S, name)
    out = {}
    for cid, (c1, c2, c3) in ids.items():
        if not res[c1].startswith("OK"): out[cid] = "ERROR:compile " + res[c1][:80]
        elif "InvalidCircuitSize" in res[c2]: out[cid] = "ERROR:size " + res[c2][:80]
        elif res[c2].startswith("OK") and res[c3].startswith("OK"): out[cid] = "ACCEPTED"
        else: out[cid] = "REJECTED"
    return out


def mixed_sequences(rng, count, focus):
    """Programs that call several scalar gadgets on a SHARED pool of three witnesses in one composer (each witness is
    used by several calls, at different widths, by different gadget kinds; [focus] is over-represented).  Every op is
    satisfiable for the chosen values.  Returns [(body, [(op, params, result position or None, expected value)])]."""
    out = []
    for _ in range(count):
        vals = [rng.choice([rng.scalar(), rng.randrange(1 << 16), R - 1, rng.randrange(1 << 64)]) for _ in range(3)]
        body = ["w " + hx(v) for v in vals]
        nres = 3; calls = []
        for _k in range(rng.randrange(4, 8)):
            op = rng.choice([focus, focus, "trunc", "land", "lxor", "rbits"])
            a = rng.randrange(3); b = rng.randrange(3)
            if op == "trunc":
                n = rng.choice([0, 1, 7, 8, 16, 33, 64, 100, 254])
                body.append(f"trunc {n} ${a}"); calls.append(("trunc", (n, a), nres, vals[a] % (1 << n))); nres += 1
            elif op in ("land", "lxor"):
                p = rng.choice([0, 1, 2, 4, 8, 16, 32, 33, 64, 127])
                f = (lambda u, v: u & v) if op == "land" else (lambda u, v: u ^ v)
                N = 2 * p
                body.append(f"{op} {p} ${a} ${b}"); calls.append((op, (p, a, b), nres, f(vals[a] % (1 << N), vals[b] % (1 << N)) if N else 0)); nres += 1
            else:
                w = max(vals[a].bit_length(), 1) + rng.choice([0, 0, 1, 5, 40])
                w = min(w, 256) if vals[a].bit_length() < 255 else rng.choice([255, 256])
                body.append(f"rbits {w} ${a}"); calls.append(("rbits", (w, a), None, None))
        out.append((body + ["snap"], calls))
    return out


def check_mixed_sequences(ck, seqs, name, prop):
    """run the programs on the real composer and on the model: layouts and witness values must agree (L3), the real
    assignment must satisfy the real rows, and every call must return its own result"""
    lines, progs = [], {}
    for i, (body, calls) in enumerate(seqs):
        nm = f"mix{i}"; progs[nm] = body; lines.append("prog " + nm); lines.extend(body)
        ck.count(("mixed", tuple(body)), kind="mixed sequences on shared witnesses")
    impl, model = run_both(ck, "\n".join(lines) + "\n", name)
    bad = compare_programs(ck, progs, impl, model, prop)
    jobs = []
    for i, (body, calls) in enumerate(seqs):
        nm = f"mix{i}"
        if nm not in impl: continue
        out = impl[nm]
        if any(l.startswith(("PANIC", "E ")) for l in out):
            ck.violation(f"a gadget failed inside a sequence of calls on shared witnesses: {[l for l in out if l.startswith(('PANIC', 'E '))][0][:100]}",
                         {"failing_input_found": True, "program": body}, key="mixed-error"); continue
        snap = Snapshot(out)
        res = [int(r_[0]) for r_ in snap.results if r_ and r_[0].isdigit()]
        for op, params, pos, want in calls:
            if pos is None or pos >= len(res): continue
            got = snap.wits[res[pos]] if res[pos] < len(snap.wits) else None
            if got != want:
                ck.violation(f"in a sequence of gadget calls on shared witnesses, {op}{params} returned {got:#x}, expected {want:#x}" if got is not None else f"{op}{params}: no result",
                             {"failing_input_found": True, "program": body, "call": [op, list(params)]}, key=f"mixed-value:{op}")
                break
        jobs.append((nm, snap, None))
    verd = model_sat(jobs, name + "_sat") if jobs else {}
    for nm, snap, _ in jobs:
        if verd.get(nm) is not None:
            ck.violation(f"the honest assignment of a sequence of gadget calls on shared witnesses does not satisfy its own rows (first bad row {verd[nm]})",
                         {"failing_input_found": True, "program": progs[nm]}, key="mixed-sat")
    return bad, progs
