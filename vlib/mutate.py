"""Structure-aware mutation of valid encodings (C15/C16/C17)."""
import zlib, struct
from .common import R

P381 = 0x1a0111ea397fe69a4b1ba7b6434bacd764774b84f38512bf6730d2a0f6b0f6241eabfffeb153ffffb9feffffffffaaab

def be64(x): return struct.pack(">Q", x & 0xFFFFFFFFFFFFFFFF)
def le64(x): return struct.pack("<Q", x & 0xFFFFFFFFFFFFFFFF)

EXTREMES = [0, 1, 2, 7, 8, 255, 256, (1 << 31), (1 << 32) - 1, (1 << 63), (1 << 63) - 1, (1 << 64) - 1, (1 << 64) - 8]

def g1_compressed_specials(rng):
    """hand-built 48-byte compressed G1 encodings that must be rejected (or are the identity)"""
    out = []
    inf = bytearray(48); inf[0] = 0xC0
    out.append(("identity", bytes(inf)))
    bad = bytearray(inf); bad[47] = 1
    out.append(("infinity flag with non-zero x", bytes(bad)))
    out.append(("uncompressed flag", bytes(48)))
    x_ge_p = bytearray(P381.to_bytes(48, "big")); x_ge_p[0] |= 0x80
    out.append(("x = p (non-canonical)", bytes(x_ge_p)))
    # on-curve point (very likely outside the prime-order subgroup), and x with no y
    x = rng.randrange(P381)
    for _ in range(200):
        rhs = (pow(x, 3, P381) + 4) % P381
        y = pow(rhs, (P381 + 1) // 4, P381)
        if y * y % P381 == rhs:
            b = bytearray(x.to_bytes(48, "big")); b[0] |= 0x80
            out.append(("on curve, random (not in the subgroup w.h.p.)", bytes(b)))
            break
        x = (x + 1) % P381
    x = rng.randrange(P381)
    for _ in range(200):
        rhs = (pow(x, 3, P381) + 4) % P381
        y = pow(rhs, (P381 + 1) // 4, P381)
        if y * y % P381 != rhs:
            b = bytearray(x.to_bytes(48, "big")); b[0] |= 0x80
            out.append(("x not on the curve", bytes(b)))
            break
        x = (x + 1) % P381
    out.append(("all ones", b"\xff" * 48))
    return out

# ---- BLS12-381 G1 in affine coordinates (input generation only) ----
R381 = 0x73eda753299d7d483339d80809a1d80553bda402fffe5bfeffffffff00000001
def g1_add(P_, Q_):
    if P_ is None: return Q_
    if Q_ is None: return P_
    (x1, y1), (x2, y2) = P_, Q_
    if x1 == x2:
        if (y1 + y2) % P381 == 0: return None
        l = 3 * x1 * x1 * pow(2 * y1, -1, P381) % P381
    else:
        l = (y2 - y1) * pow(x2 - x1, -1, P381) % P381
    x3 = (l * l - x1 - x2) % P381
    return (x3, (l * (x1 - x3) - y1) % P381)
def g1_neg(P_): return None if P_ is None else (P_[0], (-P_[1]) % P381)
def g1_mul(k, P_):
    acc = None
    while k:
        if k & 1: acc = g1_add(acc, P_)
        P_ = g1_add(P_, P_); k >>= 1
    return acc
def g1_random_curve_point(rng):
    x = rng.randrange(P381)
    while True:
        rhs = (pow(x, 3, P381) + 4) % P381
        y = pow(rhs, (P381 + 1) // 4, P381)
        if y * y % P381 == rhs: return (x, y)
        x = (x + 1) % P381
def g1_torsion_point(rng):
    """a non-identity point of the cofactor part of E(Fp): [r]Q for a random curve point Q"""
    while True:
        T = g1_mul(R381, g1_random_curve_point(rng))
        if T is not None: return T
def g1_decompress(b):
    """48-byte compressed G1 -> affine (x, y) (no subgroup check), None for the identity"""
    if b[0] & 0x40: return None
    x = int.from_bytes(bytes([b[0] & 0x1f]) + bytes(b[1:48]), "big")
    y = pow((pow(x, 3, P381) + 4) % P381, (P381 + 1) // 4, P381)
    if (y > P381 - y) != bool(b[0] & 0x20): y = P381 - y
    return (x, y)
def g1_compress(P_):
    if P_ is None: return bytes([0xC0]) + bytes(47)
    bb = bytearray(P_[0].to_bytes(48, "big")); bb[0] |= 0x80 | (0x20 if P_[1] > P381 - P_[1] else 0)
    return bytes(bb)
MONT = (1 << 384) % P381
def g1_raw(P_):
    """97-byte raw commit-key encoding: Montgomery limbs of x and y, little-endian, infinity flag"""
    return (P_[0] * MONT % P381).to_bytes(48, "little") + (P_[1] * MONT % P381).to_bytes(48, "little") + b"\x00"
def g1_unraw(b):
    inv = pow(MONT, -1, P381)
    return (int.from_bytes(b[:48], "little") * inv % P381, int.from_bytes(b[48:96], "little") * inv % P381)

# ---- BLS12-381 G2 (E': y^2 = x^3 + 4(1+u) over Fp2 = Fp[u]/(u^2+1)), input generation only ----
def f2_add(a, b): return ((a[0] + b[0]) % P381, (a[1] + b[1]) % P381)
def f2_sub(a, b): return ((a[0] - b[0]) % P381, (a[1] - b[1]) % P381)
def f2_mul(a, b): return ((a[0] * b[0] - a[1] * b[1]) % P381, (a[0] * b[1] + a[1] * b[0]) % P381)
def f2_neg(a): return ((-a[0]) % P381, (-a[1]) % P381)
def f2_inv(a):
    d = pow((a[0] * a[0] + a[1] * a[1]) % P381, -1, P381)
    return (a[0] * d % P381, (-a[1]) * d % P381)
def f2_pow(a, e):
    r = (1, 0)
    while e:
        if e & 1: r = f2_mul(r, a)
        a = f2_mul(a, a); e >>= 1
    return r
def f2_sqrt(a):
    if a == (0, 0): return (0, 0)
    a1 = f2_pow(a, (P381 - 3) // 4)
    alpha = f2_mul(f2_mul(a1, a1), a)
    x0 = f2_mul(a1, a)
    if alpha == (P381 - 1, 0): x = f2_mul((0, 1), x0)
    else: x = f2_mul(f2_pow(f2_add((1, 0), alpha), (P381 - 1) // 2), x0)
    return x if f2_mul(x, x) == a else None
B2 = (4, 4)
def g2_add(P_, Q_):
    if P_ is None: return Q_
    if Q_ is None: return P_
    (x1, y1), (x2, y2) = P_, Q_
    if x1 == x2:
        if f2_add(y1, y2) == (0, 0): return None
        l = f2_mul(f2_mul((3, 0), f2_mul(x1, x1)), f2_inv(f2_mul((2, 0), y1)))
    else:
        l = f2_mul(f2_sub(y2, y1), f2_inv(f2_sub(x2, x1)))
    x3 = f2_sub(f2_sub(f2_mul(l, l), x1), x2)
    return (x3, f2_sub(f2_mul(l, f2_sub(x1, x3)), y1))
def g2_mul(k, P_):
    acc = None
    while k:
        if k & 1: acc = g2_add(acc, P_)
        P_ = g2_add(P_, P_); k >>= 1
    return acc
def g2_random_curve_point(rng):
    while True:
        x = (rng.randrange(P381), rng.randrange(P381))
        y = f2_sqrt(f2_add(f2_mul(f2_mul(x, x), x), B2))
        if y is not None: return (x, y)
def g2_compress(P_):
    (x, y) = P_
    ny = f2_neg(y)
    largest = (y[1], y[0]) > (ny[1], ny[0])
    b = bytearray(x[1].to_bytes(48, "big") + x[0].to_bytes(48, "big"))
    b[0] |= 0x80 | (0x20 if largest else 0)
    return bytes(b)
def g2_decompress(b):
    x = (int.from_bytes(b[48:96], "big"), int.from_bytes(bytes([b[0] & 0x1f]) + b[1:48], "big"))
    y = f2_sqrt(f2_add(f2_mul(f2_mul(x, x), x), B2))
    ny = f2_neg(y)
    largest = (y[1], y[0]) > (ny[1], ny[0])
    return (x, y if largest == bool(b[0] & 0x20) else ny)
def g2_specials(rng, valid=None):
    """96-byte compressed encodings of points on E'(Fp2) outside the order-r subgroup: a random curve point,
    a point of the cofactor part, and (given a valid subgroup point) that point plus a cofactor point"""
    out = []
    Q = g2_random_curve_point(rng)
    out.append(("G2 point on the curve, not in the subgroup (random)", g2_compress(Q)))
    T = g2_mul(R381, Q)
    if T is not None:
        out.append(("G2 point of the cofactor part, not in the subgroup", g2_compress(T)))
        if valid is not None:
            out.append(("valid G2 point + cofactor point, not in the subgroup", g2_compress(g2_add(g2_decompress(valid), T))))
    return out

def scalar_specials():
    return [("r (non-canonical)", R.to_bytes(32, "little")), ("r+1", (R + 1).to_bytes(32, "little")),
            ("2^256-1", b"\xff" * 32), ("2^255", (1 << 255).to_bytes(32, "little"))]

def generic_mutants(blob, rng, n_flips, other=None, header_fields=6, header_be=True):
    """yield (description, bytes)"""
    L = len(blob)
    out = []
    for _ in range(n_flips):
        i = rng.randrange(L); b = bytearray(blob); b[i] ^= 1 << rng.randrange(8)
        out.append((f"bit flip at {i}", bytes(b)))
    for f in range(header_fields):
        for v in EXTREMES:
            b = bytearray(blob); b[8 * f:8 * f + 8] = be64(v) if header_be else le64(v)
            out.append((f"header field {f} := {v:#x}", bytes(b)))
        old = int.from_bytes(blob[8 * f:8 * f + 8], "big" if header_be else "little")
        for d in (-1, 1):
            b = bytearray(blob); b[8 * f:8 * f + 8] = be64(old + d) if header_be else le64(old + d)
            out.append((f"header field {f} {d:+d}", bytes(b)))
    for cut in sorted(set([0, 1, 7, 8, 47, 48, 49, L // 2, L - 1, L - 8, L - 32, L - 48, L - 97] + [rng.randrange(L) for _ in range(10)])):
        if 0 <= cut < L: out.append((f"truncated to {cut}", blob[:cut]))
    out.append(("extended by 1", blob + b"\x00"))
    out.append(("extended by 100 junk", blob + bytes(rng.randrange(256) for _ in range(100))))
    if other:
        k = rng.randrange(1, min(L, len(other)))
        out.append((f"splice at {k}", blob[:k] + other[k:]))
        out.append((f"splice reversed at {k}", other[:k] + blob[k:]))
    return out

def inner_u64_mutants(blob, rng, start, span, n):
    """set 8-byte windows inside [start, start+span) to extreme little-endian values"""
    out = []
    for _ in range(n):
        off = start + 8 * rng.randrange(max(1, span // 8))
        if off + 8 > len(blob): continue
        v = rng.choice(EXTREMES)
        b = bytearray(blob); b[off:off + 8] = le64(v)
        out.append((f"inner u64 at {off} := {v:#x}", bytes(b)))
    return out

# ---- MessagePack subset used by CompressedCircuit ----
def mp_uint(v):
    if v < 0x80: return bytes([v])
    if v < 1 << 8: return b"\xcc" + bytes([v])
    if v < 1 << 16: return b"\xcd" + struct.pack(">H", v)
    if v < 1 << 32: return b"\xce" + struct.pack(">I", v)
    return b"\xcf" + struct.pack(">Q", v)

def mp_array_header(n):
    if n < 16: return bytes([0x90 | n])
    if n < 1 << 16: return b"\xdc" + struct.pack(">H", n)
    return b"\xdd" + struct.pack(">I", n & 0xFFFFFFFF)

class MPReader:
    def __init__(self, b): self.b, self.i = b, 0
    def byte(self): v = self.b[self.i]; self.i += 1; return v
    def uint(self):
        t = self.byte()
        if t < 0x80: return t
        n = {0xcc: 1, 0xcd: 2, 0xce: 4, 0xcf: 8}[t]
        v = int.from_bytes(self.b[self.i:self.i + n], "big"); self.i += n; return v
    def arr(self):
        t = self.byte()
        if 0x90 <= t <= 0x9f: return t & 0xf
        n = {0xdc: 2, 0xdd: 4}[t]
        v = int.from_bytes(self.b[self.i:self.i + n], "big"); self.i += n; return v
    def boolean(self): return self.byte() == 0xc3

def parse_compressed(payload):
    """CompressedCircuit {hades, public_inputs, witnesses, scalars, polynomials, constraints}"""
    r = MPReader(payload)
    d = {"hades": r.boolean()}
    d["public_inputs"] = [r.uint() for _ in range(r.arr())]
    d["witnesses"] = r.uint()
    ns = r.arr(); sc = []
    for _ in range(ns):
        k = r.arr() if (r.b[r.i] & 0xf0) == 0x90 or r.b[r.i] in (0xdc, 0xdd) else None
        sc.append([r.uint() for _ in range(32)])
    d["scalars"] = sc; d["scalar_elem_header"] = k if ns else None
    d["polynomials"] = [[r.uint() for _ in range(11)] for _ in range(r.arr())]
    d["constraints"] = [[r.uint() for _ in range(5)] for _ in range(r.arr())]
    d["rest"] = payload[r.i:]
    return d

def pack_compressed(d, counts=None):
    """counts: optional overrides of the four vector headers"""
    c = counts or {}
    out = b"\xc3" if d["hades"] else b"\xc2"
    out += mp_array_header(c.get("public_inputs", len(d["public_inputs"]))) + b"".join(mp_uint(v) for v in d["public_inputs"])
    out += mp_uint(d["witnesses"])
    out += mp_array_header(c.get("scalars", len(d["scalars"])))
    for s in d["scalars"]:
        if d.get("scalar_elem_header") is not None: out += mp_array_header(32)
        out += b"".join(mp_uint(v) for v in s)
    out += mp_array_header(c.get("polynomials", len(d["polynomials"]))) + b"".join(mp_uint(v) for p in d["polynomials"] for v in p)
    out += mp_array_header(c.get("constraints", len(d["constraints"]))) + b"".join(mp_uint(v) for q in d["constraints"] for v in q)
    return out + d.get("rest", b"")

def inflate(b): return zlib.decompress(b, -15)
def deflate(b):
    c = zlib.compressobj(9, zlib.DEFLATED, -15); return c.compress(b) + c.flush()
