#!/bin/bash
# Offline build of the framework: Coq development (full .vo), extracted model
# driver, Rust harness against /repo's working tree.
set -e
cd "$(dirname "$0")"
export CARGO_NET_OFFLINE=true
coq_makefile -f _CoqProject -o Makefile.coq >/dev/null
timeout 3000 make -f Makefile.coq -j16
python3 - <<'PY'
import sys; sys.path.insert(0, '.')
from vlib import common
common.build_driver()
common.build_harness()
common.build_harness('checked')
from vlib.props import c18
c18.build_alloc()
print("setup ok")
PY
